/-
Fold lemma schemas used by /verif/contracts/lemmas.py (see DESIGN.md 2.5).

`dimOf F i = Σ_b F b * bd b i` is the exponent of fundamental dimension `i` of the product of the
base units `b` raised to the exponents `F b` (a finitely supported map), where `bd b i` is the
exponent of `i` in the dimension of base unit `b`.  In the SMT encoding `dimOf` is an uninterpreted
function of the value array of the map; these theorems are what justifies each instance that the
verifier attaches (the hypothesis of an instance is proved by the solver at the point of use).
-/
import Mathlib.Data.Finsupp.Basic
import Mathlib.Algebra.BigOperators.Finsupp.Basic
import Mathlib.Tactic

open Finset

variable {U : Type} [DecidableEq U]

/-- the fold -/
def dimOf (bd : U → ℕ → ℤ) (F : U →₀ ℤ) (i : ℕ) : ℤ := F.sum (fun b e => e * bd b i)

theorem dimOf_eq_sum (bd : U → ℕ → ℤ) (F : U →₀ ℤ) (i : ℕ) (s : Finset U) (hs : F.support ⊆ s) :
    dimOf bd F i = ∑ b ∈ s, F b * bd b i := by
  unfold dimOf
  exact Finsupp.sum_of_support_subset F hs (fun b e => e * bd b i) (by intro b _; simp)

/-- S_lin2: a map that is pointwise a linear combination of two others, except at units of
dimension one (where anything goes), folds to the same linear combination. -/
theorem S_lin2 (bd : U → ℕ → ℤ) (F G H : U →₀ ℤ) (a c : ℤ)
    (h : ∀ b, H b = a * F b + c * G b ∨ ∀ j, bd b j = 0) (i : ℕ) :
    dimOf bd H i = a * dimOf bd F i + c * dimOf bd G i := by
  set s := F.support ∪ G.support ∪ H.support with hs
  have hF : F.support ⊆ s := by
    intro x hx; simp [hs, Finset.mem_union, hx]
  have hG : G.support ⊆ s := by
    intro x hx; simp [hs, Finset.mem_union, hx]
  have hH : H.support ⊆ s := by
    intro x hx; simp [hs, Finset.mem_union, hx]
  rw [dimOf_eq_sum bd H i s hH, dimOf_eq_sum bd F i s hF, dimOf_eq_sum bd G i s hG]
  rw [Finset.mul_sum, Finset.mul_sum, ← Finset.sum_add_distrib]
  apply Finset.sum_congr rfl
  intro b _
  rcases h b with hb | hb
  · rw [hb]; ring
  · rw [hb i]; ring

/-- S_lin1 (scaling, `__pow__`; and with the roles swapped, `root`) -/
theorem S_lin1 (bd : U → ℕ → ℤ) (F H : U →₀ ℤ) (a : ℤ)
    (h : ∀ b, H b = a * F b ∨ ∀ j, bd b j = 0) (i : ℕ) :
    dimOf bd H i = a * dimOf bd F i := by
  have h2 : ∀ b, H b = a * F b + 0 * (0 : U →₀ ℤ) b ∨ ∀ j, bd b j = 0 := by
    intro b
    rcases h b with hb | hb
    · left; simp [hb]
    · right; exact hb
  have key := S_lin2 bd F 0 H a 0 h2 i
  simpa using key

/-- exact multiples divide back (used after `root`): if `H = a • F` then `H / a = F` for `a ≠ 0` -/
theorem S_lin1_div (x y a : ℤ) (ha : a ≠ 0) (h : x = a * y) : x / a = y := by
  rw [h]; exact Int.mul_ediv_cancel_left y ha

/-- S_update: two maps that differ at most at `u` -/
theorem S_update (bd : U → ℕ → ℤ) (A B : U →₀ ℤ) (u : U) (h : ∀ b, b ≠ u → A b = B b) (i : ℕ) :
    dimOf bd A i = dimOf bd B i + (A u - B u) * bd u i := by
  set s := A.support ∪ B.support ∪ {u} with hs
  have hA : A.support ⊆ s := by
    intro x hx; simp [hs, Finset.mem_union, hx]
  have hB : B.support ⊆ s := by
    intro x hx; simp [hs, Finset.mem_union, hx]
  have hu : u ∈ s := by simp [hs]
  rw [dimOf_eq_sum bd A i s hA, dimOf_eq_sum bd B i s hB]
  rw [← Finset.add_sum_erase s _ hu, ← Finset.add_sum_erase s (fun b => B b * bd b i) hu]
  have : ∑ b ∈ s.erase u, A b * bd b i = ∑ b ∈ s.erase u, B b * bd b i := by
    apply Finset.sum_congr rfl
    intro b hb
    rw [h b (Finset.ne_of_mem_erase hb)]
  rw [this]; ring

/-- S_single: the fold of `{u ↦ 1}` is the dimension of `u` -/
theorem S_single (bd : U → ℕ → ℤ) (u : U) (i : ℕ) : dimOf bd (Finsupp.single u 1) i = bd u i := by
  unfold dimOf; simp [Finsupp.sum_single_index]

/-- S_zero: the fold of the empty map -/
theorem S_zero (bd : U → ℕ → ℤ) (i : ℕ) : dimOf bd (0 : U →₀ ℤ) i = 0 := by
  unfold dimOf; simp
