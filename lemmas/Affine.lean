/-
Affine lemma used by the contract of `measured.conversions.convert` (contracts/c_conversions.py):

  APk(path, k, e, x)  = fold over the first k hops of   m ↦ m * pw(scale, e) + offset
  APLk(plan, k, x)    = fold over the first k entries of m ↦ AP(path, e, m * ratio)

Both are left folds of maps that are affine in the running magnitude, hence affine in x:
there are A(plan, k), B(plan, k) with  APLk(plan, k, x) = A * x + B  for every x.
`pw` is an arbitrary function (the verifier keeps `**` uninterpreted).
-/
import Mathlib

namespace Affine

structure Hop where
  scale : ℝ
  offset : ℝ

structure Entry where
  ratio : ℝ
  path : List Hop
  exp : ℤ

/-- a left fold of maps affine in the accumulator is affine in the start value -/
theorem foldl_affine {α : Type} (f : ℝ → α → ℝ)
    (hf : ∀ h : α, ∃ a b : ℝ, ∀ m : ℝ, f m h = a * m + b) :
    ∀ l : List α, ∃ a b : ℝ, ∀ x : ℝ, l.foldl f x = a * x + b := by
  intro l
  induction l with
  | nil => exact ⟨1, 0, by intro x; simp⟩
  | cons h t ih =>
    obtain ⟨a, b, hab⟩ := ih
    obtain ⟨a', b', hab'⟩ := hf h
    refine ⟨a * a', a * b' + b, ?_⟩
    intro x
    simp only [List.foldl_cons]
    rw [hab, hab']
    ring

def ap (pw : ℝ → ℤ → ℝ) (e : ℤ) (path : List Hop) (x : ℝ) : ℝ :=
  path.foldl (fun m h => m * pw h.scale e + h.offset) x

def apl (pw : ℝ → ℤ → ℝ) (plan : List Entry) (x : ℝ) : ℝ :=
  plan.foldl (fun m en => ap pw en.exp en.path (m * en.ratio)) x

theorem ap_affine (pw : ℝ → ℤ → ℝ) (e : ℤ) (path : List Hop) :
    ∃ a b : ℝ, ∀ x : ℝ, ap pw e path x = a * x + b := by
  unfold ap
  apply foldl_affine
  intro h
  exact ⟨pw h.scale e, h.offset, by intro m; ring⟩

/-- APLk(plan, k, x) = APLA(plan, k) * x + APLB(plan, k) (k-prefix = `plan.take k`) -/
theorem apl_affine (pw : ℝ → ℤ → ℝ) (plan : List Entry) (k : ℕ) :
    ∃ a b : ℝ, ∀ x : ℝ, apl pw (plan.take k) x = a * x + b := by
  unfold apl
  apply foldl_affine
  intro en
  obtain ⟨a, b, hab⟩ := ap_affine pw en.exp en.path
  exact ⟨a * en.ratio, b, by intro m; rw [hab]; ring⟩

/-- unfolding equations assumed as instances by the loop specs: one more hop / one more entry -/
theorem ap_snoc (pw : ℝ → ℤ → ℝ) (e : ℤ) (path : List Hop) (h : Hop) (x : ℝ) :
    ap pw e (path ++ [h]) x = ap pw e path x * pw h.scale e + h.offset := by
  simp [ap, List.foldl_append]

theorem apl_snoc (pw : ℝ → ℤ → ℝ) (plan : List Entry) (en : Entry) (x : ℝ) :
    apl pw (plan ++ [en]) x = ap pw en.exp en.path (apl pw plan x * en.ratio) := by
  simp [apl, List.foldl_append]

theorem ap_nil (pw : ℝ → ℤ → ℝ) (e : ℤ) (x : ℝ) : ap pw e [] x = x := rfl
theorem apl_nil (pw : ℝ → ℤ → ℝ) (x : ℝ) : apl pw [] x = x := rfl

end Affine
