"""MANIFEST.setup_cmd: nothing to build (pure Python + z3 from the tooling venv); verifies the tools are importable."""
import sys
sys.path.insert(0, "/verif")
import z3
from pyvc.frontend import Program
from contracts import registry
p = Program()
print("setup ok: z3", z3.get_version_string(), "-", len(registry.CONTRACTS), "contracts,", len(p.modules), "source modules")

from checks import static
print("lean lemmas:", static.lean_lemmas("/repo/src"))
print("lean affine:", static.lean_affine("/repo/src"))
