"""Per-property configuration of the check driver."""
from . import static

PROPS = {
    "C01": {
        "level": "proof",
        "static": [static.c01_frame, static.lean_lemmas, static.intern_key_order, static.alloc_sites],
        "trusted": ["Unit.__from_json__: factors read from a JSON document are assumed to be in normal form (as produced by __json__)"],
        "explanation": "C01 is the table invariant I_U.C01-dimension-is-fold; every Unit(...) call site carries it as a precondition "
                       "(obligation call-pre:Unit#k:C01-dimension-is-fold), every function that allocates units re-establishes I_U, and a static "
                       "frame scan shows nothing else writes dimension/factors/_known.",
    },
    "C02": {
        "level": "proof",
        "static": [static.lean_lemmas, static.intern_key_order, static.alloc_sites, static.core_state, static.process_state],
        "trusted": ["mixed-base prefix arithmetic: exponent identities proved over the reals with uninterpreted log (A4); the 1e-9 float tolerance is bounded only",
                    "group laws not completed by the solver and therefore bounded only: prefix associativity, unit associativity, unit neutral element, "
                    "unit exponent sum, unit root-of-power (see contracts/c_lemmas.py BOUNDED_ONLY)"],
        "explanation": "Operator contracts describe results on the abstract view (exponent vectors, (base, exponent), factor maps as lambda terms); the intern "
                       "table invariants I_D/I_P/I_U give canonicity (equal view => same object); the group laws are lemma functions "
                       "(contracts/lemma_src.py) executed symbolically against the contracts, each assert being an obligation.",
    },
    "C03": {
        "level": "proof",
        "manifest_level": "other",
        "static": [static.memo_args, static.core_state, static.process_state],
        "trusted": ["conversions._plan_conversion: assumed contract, see C04 (convert's own dimension gate, asked unit and Decimal preservation are verified)"],
        "explanation": "Deductive proof of every obligation except one recorded finding (Quantity.__rtruediv__/post:dimension-inverse, pinned by the test "
                       "suite), hence level 'other' rather than 'proof'. Contracts on _add.._div (Decimal lattice), Quantity * / ** unary + - (dimension homomorphism through the C01 invariant, Decimal "
                       "preservation, left unit), exceptional postconditions for different dimensions. Quantity.__rtruediv__ is a recorded finding.",
    },
    "C11": {
        "level": "proof",
        "trusted": ["value-level identities use the ghost pval(p) = base**exponent over the reals (A4); float tolerances are bounded only"],
        "explanation": "Prefix algebra contracts (canonical (base, exponent)), Unit operations propagate prefixes (prefix posts of _multiply/_divide/__pow__/root), "
                       "quantify/unprefixed preserve the ghost value, lemma prefixed_power: (p*u)**n is p**n * u**n.",
    },
    "C19": {
        "level": "proof",
        "static": [static.registry_writers, static.registry_memo],
        "trusted": ["Dimension.define/derive: covered by the bounded stand-in only (Dimension.define rewrites every key of the intern table in a loop)"],
        "explanation": "Registry invariants I_R (units) and I_RP (prefixes): a name/symbol is bound to an object iff the object reports it. Unit.alias, "
                       "Unit.define and the named Prefix constructor are verified against 'bound and reported afterwards, from every prior state "
                       "(including one holding an equal anonymous object)' and against the exceptional frame 'raises => registries unchanged'.",
    },
    "C04": {
        "level": "proof", "manifest_level": "other",
        "static": [static.lean_affine, static.memo_results],
        "trusted": ["conversions._plan_conversion and the heuristic planner helpers behind it (_replace_factors, _match_factors, _cancel_factors, _splat, _find_path, "
                    "_find_path_recursive, _inline_paths): NOT verified; their contract (contracts/c_conversions.PlanConversion: the plan is well formed, and for "
                    "offset-free units applying it multiplies by size(start)/size(end)) is ASSUMED and is what the bounded stand-in tests",
                    "WF_R (stored ratio = quotient of sizes) is an assumed invariant: its preservation by equate was attempted and is not completed by the solver",
                    "scale ** exponent over the reals is the uninterpreted rpow (A4)"],
        "explanation": "Partial proof plus bounded stand-in, hence 'other'. Proved on the real source: conversions.convert (dimension gate, asked unit, Decimal preservation, and "
                       "its two loops compute exactly the fold APL(plan, unprefixed magnitude) - loop invariants over sequences of unknown length, unfolding equations and the "
                       "affine lemma checked in lemmas/Affine.lean), so the value clause of C04 is a consequence of the planner contract alone; equate stores reciprocal "
                       "ratios for the unprefixed operands, touches nothing else and forgets memoised plans; Quantity.in_unit delegates to convert. Bounded: the planner, "
                       "against an exact-rational size oracle solved from the intercepted declarations (C04 space). Two recorded findings (dimensionless units, ton of refrigeration).",
    },
    "C05": {
        "level": "proof", "manifest_level": "other",
        "static": [static.lean_affine, static.memo_results],
        "trusted": ["conversions._plan_conversion and the planner behind it: assumed contract (see C04), bounded stand-in only",
                    "magnitudes are real numbers in the proof (A4); the float tolerances of the statement are bounded only"],
        "explanation": "Lemma functions (contracts/lemma_src.py conv_linear, conv_zero_and_sign, conv_identity, conv_round_trip, conv_route_independent) are proved against the "
                       "contract of Quantity.in_unit / conversions.convert, which is itself verified on the real source relative to the planner contract: convert's loops "
                       "compute the fold APL(plan, m), APL is affine in m (lemmas/Affine.lean) and the planner contract fixes its two coefficients for offset-free units. "
                       "'other' because the planner contract is assumed; the bounded stand-in (linearity, zero, sign, identity, round trip, route independence over the C04 "
                       "space with int/float/Decimal magnitudes) exercises it on the real planner.",
    },
    "C06": {
        "level": "proof",
        "static": [static.lean_affine, static.memo_results, static.core_state, static.process_state],
        "trusted": ["conversions._plan_conversion: assumed contract (well-formed plan; coefficient size(src)/size(dst) for offset-free units; raises ConversionNotFound "
                    "exactly when the ghost predicate noconv holds); convert itself is verified relative to it; the bounded stand-in shows where the planner fails (recorded findings)",
                    "a*b, a/b, a**n: unit-independence of the physical value is bounded only (size multiplicativity is not axiomatised)"],
        "explanation": "Quantity.__add__/__sub__ return qval(a) +- qval(b) in the left unit, __eq__/__lt__ compare physical values after unprefixing (recursion closed by the "
                       "function's own contract), given the convert contract at the call; unit-independence follows since the posts mention only qval.",
    },
    "C07": {
        "level": "proof", "manifest_level": "other",
        "static": [static.c07_asserts],
        "trusted": ["planner internals (KeyError/IndexError freedom of _match_factors/_cancel_factors pops): bounded stand-in only", "RecursionError: not decidable here"],
        "explanation": "Static obligations (no assert / __debug__ in conversions.py, comparisons catch only ConversionNotFound) + contracts of Quantity.__eq__/__lt__ (no "
                       "exception escapes; NotImplemented exactly when no conversion) + bounded stand-in run under python and python -O with outcomes compared.",
    },
    "C08": {
        "level": "proof",
        "static": [static.c08_memo, static.c08_state, static.memo_args, static.core_state, static.process_state, static.memo_results],
        "trusted": ["functools.lru_cache semantics (A10)", "dict insertion order of unit.factors may influence the planner (history dependence through factor order): bounded only"],
        "explanation": "Frame/memoisation obligations decided on the AST (only equate/translate write the tables; both invalidate every memoised function after their last "
                       "write; other memoised functions do not read the tables; no identity/time/randomness in the planner) + the contracts of equate/translate prove "
                       "'memo-forgotten' on the real code path.",
    },
    "C09": {
        "level": "other", "manifest_level": "other",
        "trusted": ["the size oracle reads magnitudes as the decimal numerals of the source text"],
        "explanation": "Ground, exhaustive: the precondition of equate ('agrees with the sizes implied by the other declarations') evaluated in exact arithmetic at each of "
                       "the 212 intercepted module-level call sites; every named unit <-> coherent SI through the real planner. One recorded finding (ton of refrigeration).",
    },
    "C10": {
        "level": "proof", "manifest_level": "other",
        "static": [static.lean_affine, static.memo_results, static.process_state],
        "trusted": ["_plan_conversion / _find_path_recursive (which hops a path holds, and the offsets they carry): bounded (exhaustive over scale pairs x single prefixes) only"],
        "explanation": "translate is proved to install ratio 1 and offsets -/+ zero; convert is proved to apply every hop of every plan entry as multiply-by-scale**exponent-then-add-"
                       "offset in order (loop invariants over the fold APk/APLk, unfolding equations in lemmas/Affine.lean); which hops the planner returns for the 12 ordered scale "
                       "pairs x registered SI prefixes is checked exhaustively against closed forms in exact rationals.",
    },
    "C12": {
        "level": "proof",
        "static": [static.memo_args, static.core_state, static.process_state],
        "trusted": ["conversions._plan_conversion (assumed contract, as in C04/C06)", "functools.total_ordering (A10): modelled as <= is (< or ==), > is (not < and !=), >= is (not <)",
                    "Measurement / Level / approximately comparisons: bounded stand-in only (the interval comparison exceeds the solver budget)"],
        "explanation": "Lemma functions over the contracts of Quantity.__eq__/__lt__: reflexive, symmetric, trichotomy, <=/>= mirror (each assert an obligation). "
                       "Quantity.__hash__ is a recorded finding.",
    },
    "C14": {
        "level": "proof",
        "static": [static.memo_args, static.core_state, static.process_state],
        "trusted": ["math.sqrt and ** over the reals (A4)", "+ and - of measurements: bounded stand-in only (the chain through four Quantity contracts exceeds the budget)"],
        "explanation": "Measurement(...) takes |uncertainty|; * / and ** are proved against sigma_f^2 = sum((df/dx_i sigma_i)^2) written out per operator (non-linear real "
                       "arithmetic), for measurement or plain quantity on the right, including zero measurands and every integer exponent.",
    },
    "C18": {
        "level": "proof",
        "static": [static.memo_args, static.core_state, static.process_state],
        "trusted": ["math.log / ** over the reals with the axioms: log strictly increasing, log x > 0 for x > 1, b**0 = 1, b**e > 0 for b > 0 (A4)",
                    "conversions._plan_conversion (assumed contract, as in C04/C06)", "round trips level<->quantity and Level.__eq__: bounded stand-in only (needs exp/log inverse reasoning)",
                    "LogarithmicUnit construction (interning keyed by (logarithm, reference)): not under contract"],
        "explanation": "LogarithmicUnit.level is proved to return (k/prefix) * log_base(quantity/reference) with k from the root-power set, Level.quantify its "
                       "exponential counterpart, and the lemma level_monotone (strictly increasing) is proved from the contract and the monotonicity of log.",
    },
    "C13": {
        "level": "other", "manifest_level": "other",
        "static": [static.memo_args, static.core_state, static.process_state, static.registry_memo],
        "trusted": ["the generated LALR parser builds the tree the grammar assigns to the text (A10)"],
        "explanation": "Ground evaluation over the finite registry (every unit x every registered prefix, exponents, products, quantities, alternative spellings) of "
                       "the real str()/parse() pair; no contract is proved (string construction by generator expressions over characters and the LALR driver are "
                       "outside the engine). Recorded findings: seven symbol collisions (each with its own key, so a new collision is reported) and non-renderable prefixes.",
    },
    "C15": {
        "level": "other", "manifest_level": "other",
        "static": [static.memo_args, static.core_state, static.process_state, static.alloc_sites, static.intern_key_order],
        "trusted": ["pickle/copy call cls.__new__(cls, *args, **kwargs) with __getnewargs_ex__ and restore slots (A10)", "json applies object_hook bottom-up (A10)"],
        "explanation": "Re-entry of __getnewargs_ex__/__from_json__ into the interning constructors is covered by the constructor contracts of C01/C02 (same key => same "
                       "object); the round trips themselves are checked natively over every registered dimension, prefix and unit and random compounds/quantities x 4 codecs. "
                       "JSON of quantities inherits the C13 rendering findings.",
    },
    "C17": {
        "level": "other", "manifest_level": "other",
        "static": [static.memo_args, static.core_state, static.process_state, static.registry_writers, static.registry_memo],
        "trusted": ["the generated LALR driver raises only LarkError subclasses (A10)"],
        "explanation": "Frame part by contract: Unit.alias(None, None) and the constructor contracts show that building anonymous units never writes the name/symbol "
                       "registries; totality, determinism and registry snapshots are checked natively over edge inputs (5000-digit numbers, NUL, unicode digits, 100k characters), "
                       "grammar-generated strings, token mutations and random text.",
    },
    "C20": {
        "level": "proof", "manifest_level": "other",
        "static": [static.c20_locks, static.c20_publication, static.memo_args, static.core_state, static.process_state, static.intern_key_order, static.alloc_sites],
        "trusted": ["threading.RLock provides mutual exclusion; dict and lru_cache operations are atomic enough under the GIL (A10)",
                    "double initialisation of one fresh object by two threads writes identical values (outside the statement)"],
        "explanation": "Lock discipline (static, closed obligations): in each interning __new__ the registry test, the allocation and the insertion lie in one critical section "
                       "of a module-level lock, nothing else inserts into the registries; inside the section the sequential constructor contracts (C02) apply, so all threads "
                       "obtain the registered object. A deterministic line-granularity scheduler replays every one-preemption schedule of two threads natively.",
    },
}
