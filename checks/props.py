"""Per-property configuration of the check driver."""
from . import static

PROPS = {
    "C01": {
        "level": "proof",
        "static": [static.c01_frame],
        "trusted": ["Unit.__from_json__: factors read from a JSON document are assumed to be in normal form (as produced by __json__)"],
        "explanation": "C01 is the table invariant I_U.C01-dimension-is-fold; every Unit(...) call site carries it as a precondition "
                       "(obligation call-pre:Unit#k:C01-dimension-is-fold), every function that allocates units re-establishes I_U, and a static "
                       "frame scan shows nothing else writes dimension/factors/_known.",
    },
}
