"""Per-property configuration of the check driver."""
from . import static

PROPS = {
    "C01": {
        "level": "proof",
        "static": [static.c01_frame],
        "trusted": ["Unit.__from_json__: factors read from a JSON document are assumed to be in normal form (as produced by __json__)"],
        "explanation": "C01 is the table invariant I_U.C01-dimension-is-fold; every Unit(...) call site carries it as a precondition "
                       "(obligation call-pre:Unit#k:C01-dimension-is-fold), every function that allocates units re-establishes I_U, and a static "
                       "frame scan shows nothing else writes dimension/factors/_known.",
    },
    "C02": {
        "level": "proof",
        "trusted": ["mixed-base prefix arithmetic: exponent identities proved over the reals with uninterpreted log (A4); the 1e-9 float tolerance is bounded only",
                    "group laws not completed by the solver and therefore bounded only: prefix associativity, unit associativity, unit neutral element, "
                    "unit exponent sum, unit root-of-power (see contracts/c_lemmas.py BOUNDED_ONLY)"],
        "explanation": "Operator contracts describe results on the abstract view (exponent vectors, (base, exponent), factor maps as lambda terms); the intern "
                       "table invariants I_D/I_P/I_U give canonicity (equal view => same object); the group laws are lemma functions "
                       "(contracts/lemma_src.py) executed symbolically against the contracts, each assert being an obligation.",
    },
    "C03": {
        "level": "proof",
        "manifest_level": "other",
        "trusted": ["conversions.convert (dimension gate, asked unit, Decimal preservation): contract assumed here, see C04"],
        "explanation": "Deductive proof of every obligation except one recorded finding (Quantity.__rtruediv__/post:dimension-inverse, pinned by the test "
                       "suite), hence level 'other' rather than 'proof'. Contracts on _add.._div (Decimal lattice), Quantity * / ** unary + - (dimension homomorphism through the C01 invariant, Decimal "
                       "preservation, left unit), exceptional postconditions for different dimensions. Quantity.__rtruediv__ is a recorded finding.",
    },
    "C11": {
        "level": "proof",
        "trusted": ["value-level identities use the ghost pval(p) = base**exponent over the reals (A4); float tolerances are bounded only"],
        "explanation": "Prefix algebra contracts (canonical (base, exponent)), Unit operations propagate prefixes (prefix posts of _multiply/_divide/__pow__/root), "
                       "quantify/unprefixed preserve the ghost value, lemma prefixed_power: (p*u)**n is p**n * u**n.",
    },
    "C19": {
        "level": "proof",
        "trusted": ["Dimension.define/derive: covered by the bounded stand-in only (Dimension.define rewrites every key of the intern table in a loop)"],
        "explanation": "Registry invariants I_R (units) and I_RP (prefixes): a name/symbol is bound to an object iff the object reports it. Unit.alias, "
                       "Unit.define and the named Prefix constructor are verified against 'bound and reported afterwards, from every prior state "
                       "(including one holding an equal anonymous object)' and against the exceptional frame 'raises => registries unchanged'.",
    },
}
