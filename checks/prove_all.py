"""Developer tool: verify every function under contract in parallel and print a summary."""
import sys, time, os
sys.path.insert(0, "/verif")
from checks.run import run_proofs
from contracts import registry

t0 = time.time()
quals = [q for q, K in sorted(registry.CONTRACTS.items()) if not K.trusted and (len(sys.argv) < 2 or any(a in q for a in sys.argv[1:]))]
res = run_proofs(quals, os.environ.get("VERIF_SRC", "/repo/src"), int(os.environ.get("VERIF_TIMEOUT_MS", "6000")), 15)
tot = dis = 0
for q in quals:
    r = res[q]
    bad = {o: x for o, x in r["results"].items() if x["status"] != "discharged"}
    tot += len(r["results"]); dis += len(r["results"]) - len(bad)
    print("%-45s paths %4s obl %4d wall %7.1fs %s" % (q, r.get("paths"), len(r["results"]), r.get("wall_s", 0), "ERR " + r["error"].splitlines()[0][:100] if r.get("error") else ""))
    for o, x in sorted(bad.items()):
        print("      %-10s %8.0fms %s %s" % (x["status"], x["ms"], o, (x.get("note") or "")[:80]))
print("total %d obligations, %d discharged, %.1fs wall" % (tot, dis, time.time() - t0))
