"""Developer driver: verify the named functions and print obligations."""
import sys, json, time
sys.path.insert(0, "/verif")
from pyvc.frontend import Program
from pyvc.verify import Verifier
from contracts import registry


def main():
    quals = sys.argv[1:]
    prog = Program()
    for _n, _p in registry.SIDE_MODULES.items():
        prog.add_module(_n, _p)
    V = Verifier(prog, registry.SCHEMA, registry.CONTRACTS, registry.SPEC)
    for q in quals or sorted(registry.CONTRACTS):
        if registry.CONTRACTS[q].trusted:
            continue
        r = V.verify(q)
        print("==", q, "paths", r["paths"], "gen", r.get("gen_s"), "wall", r.get("wall_s"), "ERR" if r["error"] else "")
        if r["error"]:
            print("   ", r["error"][:3000])
        for oid, res in sorted(r["results"].items()):
            print("   %-10s %7.1fms x%d %s %s" % (res["status"], res["ms"], res["paths"], oid, res["note"] or ""))
            if res["status"] == "refuted" and "-v" in sys.argv:
                print(res["model"])
        for v in r["vacuity"]:
            if not v["requires_satisfiable"]:
                print("    VACUOUS", v)

main()
