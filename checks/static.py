"""Static (syntactic) obligations over the real AST: frames and call-site scans."""
import ast
from pyvc.frontend import Program
from contracts import registry


def _enclosing(prog):
    """yield (module, qualname of enclosing function or '<module>', node) for every node"""
    for m in prog.modules.values():
        def visit(node, qual):
            for ch in ast.iter_child_nodes(node):
                q = qual
                if isinstance(ch, ast.ClassDef):
                    q = (qual + "." if qual != "<module>" else "") + ch.name
                elif isinstance(ch, ast.FunctionDef):
                    q = (qual + "." if qual != "<module>" else "") + ch.name
                yield m, q, ch
                yield from visit(ch, q)
        yield from visit(m.tree, "<module>")


def c01_frame(src):
    """Only Unit.__init__ writes .dimension/.factors of a unit, only Unit.__new__ writes
    Unit._known; every Unit(...) constructor call site is under a verified contract (its
    C01 precondition is then an obligation there) or derives the dimension argument from
    the factors argument with Unit._dimension_of."""
    prog = Program(src)
    res = {}
    bad_writes, sites = [], []
    for m, q, n in _enclosing(prog):
        if m.name in ("measured.pytest", "measured.hypothesis", "measured.cli"):
            pass
        if isinstance(n, ast.Attribute) and isinstance(n.ctx, ast.Store) and n.attr in ("dimension", "factors"):
            if not (m.name == "measured" and q == "Unit.__init__"):
                bad_writes.append("%s:%s line %d writes .%s" % (m.name, q, n.lineno, n.attr))
        if isinstance(n, ast.Subscript) and isinstance(n.ctx, (ast.Store, ast.Del)) and isinstance(n.value, ast.Attribute) and n.value.attr == "_known":
            owner = q.split(".")[0]
            if owner == "Unit" and q != "Unit.__new__":
                bad_writes.append("%s:%s line %d writes Unit._known" % (m.name, q, n.lineno))
        if isinstance(n, ast.Call):
            f = n.func
            is_ctor = (isinstance(f, ast.Name) and f.id == "Unit") or (isinstance(f, ast.Name) and f.id == "cls" and q.startswith("Unit.") and m.name == "measured")
            if is_ctor and (len(n.args) >= 3 or any(k.arg == "dimension" for k in n.keywords)):
                sites.append((m, q, n))
    res["C01/frame:only-Unit.__init__-writes-dimension-and-factors"] = {
        "status": "discharged" if not bad_writes else "refuted", "note": "; ".join(bad_writes), "ms": 0, "backend": "static-scan"}
    for m, q, n in sites:
        qual = m.name + "." + q
        oid = "C01/ctor-site:%s@%s" % (q, _site_ordinal(sites, m, q, n))
        K = registry.CONTRACTS.get(qual)
        dim_arg = n.args[2] if len(n.args) >= 3 else [k.value for k in n.keywords if k.arg == "dimension"][0]
        fac_arg = n.args[1] if len(n.args) >= 2 else None
        derived = (isinstance(dim_arg, ast.Call) and ast.unparse(dim_arg.func) in ("Unit._dimension_of", "cls._dimension_of", "self._dimension_of")
                   and fac_arg is not None and len(dim_arg.args) == 1 and ast.dump(dim_arg.args[0]) == ast.dump(fac_arg))
        if K is not None and not K.trusted and "C01" in K.props:
            res[oid] = {"status": "discharged", "note": "call-pre obligation generated in the proof of %s" % qual, "ms": 0, "backend": "static-scan"}
        elif derived:
            res[oid] = {"status": "discharged", "note": "dimension argument is Unit._dimension_of(<factors argument>) (contract of _dimension_of)", "ms": 0, "backend": "static-scan"}
        else:
            res[oid] = {"status": "undecided", "note": "constructor call site in %s is not under a C01 contract and its dimension argument is not Unit._dimension_of(<factors argument>)" % qual,
                        "ms": 0, "backend": "static-scan"}
        fi = prog.func(qual)
        if fi is not None:
            # the source text this verdict was read from: lets the driver tell a changed call site from solver noise
            res[oid]["function"], res[oid]["deps"] = qual, {qual: fi.sha}
    return res


def _site_ordinal(sites, m, q, n):
    same = [x for x in sites if x[0] is m and x[1] == q]
    return same.index((m, q, n))


def c07_asserts(src):
    """-O half of C07: the conversion module contains no assert statement and no __debug__ test, so
    disabling assertions cannot change which conversions succeed or any returned value; the asserts
    elsewhere in the library are listed (none lies on a conversion/comparison path)."""
    prog = Program(src)
    res = {}
    conv = prog.modules["measured.conversions"]
    asserts = [n.lineno for n in ast.walk(conv.tree) if isinstance(n, ast.Assert)]
    debug = [n.lineno for n in ast.walk(conv.tree) if isinstance(n, ast.Name) and n.id == "__debug__"]
    res["C07/static:conversions-has-no-assert"] = {"status": "discharged" if not asserts and not debug else "refuted",
                                                   "note": "assert at lines %s, __debug__ at %s" % (asserts, debug) if asserts or debug else "", "ms": 0, "backend": "static-scan"}
    # asserts in methods that conversions / comparisons / + / - call
    core = prog.modules["measured"]
    risky = []
    for cname in ("Quantity", "Unit", "Prefix", "Dimension"):
        ci = core.classes[cname]
        for mname, fi in ci.methods.items():
            if mname in ("__abs__",):
                continue  # not on a conversion / comparison path; isinstance check of abs() result
            for n in ast.walk(fi.node):
                if isinstance(n, ast.Assert):
                    risky.append("%s.%s line %d" % (cname, mname, n.lineno))
    res["C07/static:no-assert-on-conversion-paths"] = {"status": "discharged" if not risky else "undecided", "note": "; ".join(risky), "ms": 0, "backend": "static-scan"}
    # only ConversionNotFound is caught around conversions in the comparison operators
    bad = []
    for mname in ("__eq__", "__lt__"):
        fi = core.classes["Quantity"].methods[mname]
        for n in ast.walk(fi.node):
            if isinstance(n, ast.ExceptHandler):
                t = ast.unparse(n.type) if n.type is not None else "<bare>"
                if t != "conversions.ConversionNotFound":
                    bad.append("Quantity.%s catches %s" % (mname, t))
    res["C07/static:comparisons-catch-only-ConversionNotFound"] = {"status": "discharged" if not bad else "refuted", "note": "; ".join(bad), "ms": 0, "backend": "static-scan"}
    return res


def _calls(fn_node):
    out = set()
    for n in ast.walk(fn_node):
        if isinstance(n, ast.Call):
            out.add(ast.unparse(n.func))
    return out


def c08_memo(src):
    """C08: every memoised function of the conversion module is invalidated by every function that
    writes the equivalence tables; nothing but equate/translate writes them; memoised functions
    elsewhere do not read them."""
    prog = Program(src)
    res = {}
    conv = prog.modules["measured.conversions"]
    memo = sorted(n for n, f in conv.functions.items() if f.memo)
    writers = {}
    for name, f in conv.functions.items():
        for n in ast.walk(f.node):
            if isinstance(n, ast.Subscript) and isinstance(n.ctx, (ast.Store, ast.Del)):
                base = n.value
                while isinstance(base, ast.Subscript):
                    base = base.value
                if isinstance(base, ast.Name) and base.id in ("_ratios", "_offsets"):
                    writers.setdefault(name, set()).add(base.id)
            if isinstance(n, ast.Call) and isinstance(n.func, ast.Attribute) and n.func.attr in ("update", "setdefault", "pop", "clear") \
                    and isinstance(n.func.value, (ast.Name, ast.Subscript)) and ast.unparse(n.func.value).startswith(("_ratios", "_offsets")):
                writers.setdefault(name, set()).add(ast.unparse(n.func.value))
    extra = sorted(w for w in writers if w not in ("equate", "translate"))
    res["C08/static:only-equate-and-translate-write-the-tables"] = {"status": "discharged" if not extra else "refuted",
                                                                    "note": "also written by: %s" % extra if extra else "", "ms": 0, "backend": "static-scan"}

    def cleared_by(fname, depth=0, seen=None):
        seen = seen or set()
        if fname in seen or fname not in conv.functions or depth > 3:
            return set()
        seen.add(fname)
        out = set()
        for c in _calls(conv.functions[fname].node):
            if c.endswith(".cache_clear"):
                out.add(c[:-len(".cache_clear")])
            elif c in conv.functions:
                out |= cleared_by(c, depth + 1, seen)
        return out

    for w in ("equate", "translate"):
        missing = [m for m in memo if m not in cleared_by(w)]
        res["C08/static:%s-invalidates-every-memoised-function" % w] = {
            "status": "discharged" if not missing else "refuted", "note": "not cleared: %s (memoised: %s)" % (missing, memo) if missing else "memoised: %s" % memo,
            "ms": 0, "backend": "static-scan"}
    # the invalidation must come after the last table write (syntactic order in the body)
    for w in ("equate", "translate"):
        body = conv.functions[w].node.body
        last_write = max([i for i, st in enumerate(body) for n in ast.walk(st) if isinstance(n, ast.Subscript) and isinstance(n.ctx, ast.Store)
                          and ast.unparse(n).startswith(("_ratios", "_offsets"))] or [-1])
        clear_at = [i for i, st in enumerate(body) for c in _calls(st) if c.endswith(".cache_clear") or (c in conv.functions and cleared_by(c))]
        ok = clear_at and max(clear_at) > last_write
        res["C08/static:%s-invalidates-after-its-last-write" % w] = {"status": "discharged" if ok else "refuted", "note": "", "ms": 0, "backend": "static-scan"}
    # memoised functions outside conversions must not depend on the tables
    core = prog.modules["measured"]
    dep = []
    for c in core.classes.values():
        for f in c.methods.values():
            if f.memo and any(isinstance(n, ast.Name) and n.id == "conversions" for n in ast.walk(f.node)):
                dep.append(f.qual)
    res["C08/static:other-memoised-functions-do-not-read-the-tables"] = {"status": "discharged" if not dep else "refuted", "note": "; ".join(dep), "ms": 0, "backend": "static-scan"}
    # no other module-level mutable state is consulted by the planner (ids, time, randomness)
    sus = [ast.unparse(n.func) for f in conv.functions.values() for n in ast.walk(f.node) if isinstance(n, ast.Call)
           and ast.unparse(n.func) in ("id", "hash", "time.time", "random.random", "random.choice")]
    res["C08/static:planner-uses-no-identity-time-or-randomness"] = {"status": "discharged" if not sus else "undecided", "note": "; ".join(sus), "ms": 0, "backend": "static-scan"}
    return res


def memo_args(src):
    """memo-soundness (C03, C08, C20): an lru_cache keys on == / hash of the arguments, so a memoised
    function may only take interned objects (Dimension, Prefix, Unit: equality is identity) as
    arguments; int/float/Decimal keys compare equal across types (1 == 1.0 == Decimal(1)) and a
    cached result of one type would be returned for another."""
    prog = Program(src)
    res = {}
    ok_types = {"Dimension", "Prefix", "Unit", '"Dimension"', '"Prefix"', '"Unit"'}
    for f in prog.all_functions():
        if not f.memo or f.module in ("measured.hypothesis", "measured.pytest"):
            continue
        bad = []
        for p in f.params:
            if p == "self" and f.cls in ("Dimension", "Prefix", "Unit"):
                continue
            if p == "cls" and f.kind == "class" and False:
                continue
            ann = f.annotations.get(p)
            t = ast.unparse(ann).strip("'\"") if ann is not None else None
            if t not in ("Dimension", "Prefix", "Unit"):
                bad.append("%s: %s" % (p, t))
        oid = "memo/static:%s-keys-are-interned-objects" % f.qual.replace("measured.", "")
        res[oid] = {"status": "discharged" if not bad else "refuted", "ms": 0, "backend": "static-scan", "complete": True,
                    "note": "memoised function keyed on non-interned arguments (%s): equal keys of different types share one cache entry" % ", ".join(bad) if bad else ""}
    return res


def c08_state(src):
    """the conversion module keeps no mutable module-level state besides the two equivalence tables
    (any other cache of query outcomes would make results depend on the query history)"""
    prog = Program(src)
    conv = prog.modules["measured.conversions"]
    extra = []
    for node in conv.tree.body:
        tgt, val = None, None
        if isinstance(node, ast.Assign) and len(node.targets) == 1 and isinstance(node.targets[0], ast.Name):
            tgt, val = node.targets[0].id, node.value
        elif isinstance(node, ast.AnnAssign) and isinstance(node.target, ast.Name) and node.value is not None:
            tgt, val = node.target.id, node.value
        if tgt is None or tgt in ("_ratios", "_offsets"):
            continue
        if isinstance(val, (ast.Dict, ast.List, ast.Set)) or (isinstance(val, ast.Call) and ast.unparse(val.func) in ("dict", "list", "set", "defaultdict", "OrderedDict", "collections.defaultdict")):
            extra.append("%s (line %d)" % (tgt, node.lineno))
    return {"C08/static:no-other-mutable-module-state-in-conversions": {
        "status": "discharged" if not extra else "refuted", "ms": 0, "backend": "static-scan", "complete": True,
        "note": "mutable module-level state besides the equivalence tables: %s" % ", ".join(extra) if extra else ""}}


def c20_locks(src):
    """lock discipline of the interning constructors (C20): every access to cls._known inside
    Dimension/Prefix/Unit.__new__ lies in one `with _interning_lock:` block that also contains the
    allocation and the insertion, and the lock is a module-level threading lock."""
    prog = Program(src)
    core = prog.modules["measured"]
    res = {}
    lock_decl = [ast.unparse(v) for v in core.globals_assigned.get("_interning_lock", [])]
    ok_decl = len(lock_decl) == 1 and lock_decl[0] in ("threading.RLock()", "threading.Lock()", "RLock()", "Lock()")
    res["C20/static:interning-lock-is-a-module-level-lock"] = {"status": "discharged" if ok_decl else "refuted", "ms": 0, "backend": "static-scan", "complete": True,
                                                                "note": "" if ok_decl else "declaration(s): %s" % lock_decl}
    for cname in ("Dimension", "Prefix", "Unit"):
        fi = core.classes[cname].methods.get("__new__")
        oid = "C20/static:%s.__new__-registry-access-under-the-lock" % cname
        if fi is None:
            res[oid] = {"status": "undecided", "note": "no __new__", "ms": 0, "backend": "static-scan"}
            continue
        withs = [n for n in ast.walk(fi.node) if isinstance(n, ast.With) and any("_interning_lock" in ast.unparse(i.context_expr) for i in n.items)]
        guarded = set()
        for w in withs:
            for n in ast.walk(w):
                guarded.add(id(n))
        bad = []
        for n in ast.walk(fi.node):
            if isinstance(n, ast.Attribute) and n.attr in ("_known", "_by_name") and id(n) not in guarded:
                bad.append("line %d: %s outside the lock" % (n.lineno, ast.unparse(n)))
            if isinstance(n, ast.Call) and ast.unparse(n.func) == "super().__new__" and id(n) not in guarded:
                bad.append("line %d: allocation outside the lock" % n.lineno)
        if len(withs) != 1:
            bad.append("%d lock blocks (check-then-insert must be one critical section)" % len(withs))
        # the critical section must return the registered object on both paths (no fall-through re-check)
        res[oid] = {"status": "discharged" if not bad else "refuted", "ms": 0, "backend": "static-scan", "complete": True, "note": "; ".join(bad)}
    # nothing else inserts into the three registries (Dimension.define re-keys under import only: listed)
    writers = []
    for cname, ci in core.classes.items():
        for mname, fi in ci.methods.items():
            for n in ast.walk(fi.node):
                if isinstance(n, ast.Subscript) and isinstance(n.ctx, (ast.Store, ast.Del)) and isinstance(n.value, ast.Attribute) and n.value.attr == "_known":
                    if not (cname in ("Dimension", "Prefix", "Unit", "Logarithm", "LogarithmicUnit") and mname == "__new__") and not (cname == "Dimension" and mname == "define"):
                        writers.append("%s.%s line %d" % (cname, mname, n.lineno))
    res["C20/static:no-other-registry-writer"] = {"status": "discharged" if not writers else "refuted", "ms": 0, "backend": "static-scan", "complete": True, "note": "; ".join(writers)}
    # ... and nothing else in the library proper LOOKS AN INSTANCE UP in them without the lock (subscript, .get/.setdefault/.pop, `in`):
    # between the registration in __new__ and the end of __init__ the registered instance has no fields yet, so a lock-free lookup on
    # another thread hands out a half-built object, and a lock-free membership test is a second check-then-act window.
    # Iterating or counting the table (listing helpers, the hypothesis strategies) is not a lookup and is not restricted.
    def lookups(root):
        out = []
        for n in ast.walk(root):
            tgt = None
            if isinstance(n, ast.Subscript) and isinstance(n.ctx, ast.Load):
                tgt = n.value
            elif isinstance(n, ast.Call) and isinstance(n.func, ast.Attribute) and n.func.attr in ("get", "setdefault", "pop", "__getitem__", "__contains__"):
                tgt = n.func.value
            elif isinstance(n, ast.Compare) and any(isinstance(o, (ast.In, ast.NotIn)) for o in n.ops):
                for cmp_ in n.comparators:
                    if isinstance(cmp_, ast.Attribute) and cmp_.attr == "_known":
                        out.append(cmp_)
            if isinstance(tgt, ast.Attribute) and tgt.attr == "_known":
                out.append(tgt)
        return out
    readers = []
    for cname in ("Dimension", "Prefix", "Unit"):
        for mname, fi in core.classes[cname].methods.items():
            if mname == "__new__" or (cname == "Dimension" and mname == "define"):
                continue
            locked = set()
            for w in ast.walk(fi.node):
                if isinstance(w, ast.With) and any("_interning_lock" in ast.unparse(i.context_expr) for i in w.items):
                    locked |= {id(x) for x in ast.walk(w)}
            for n in lookups(fi.node):
                if id(n) not in locked:
                    readers.append("%s.%s line %d: %s" % (cname, mname, n.lineno, ast.unparse(n)))
    in_classes = {id(x) for cname in ("Dimension", "Prefix", "Unit") for fi in core.classes[cname].methods.values() for x in ast.walk(fi.node)}
    for mname_, mod in prog.modules.items():
        if mname_ in ("measured.hypothesis", "measured.pytest", "measured._parser"):
            continue
        for n in lookups(mod.tree):
            if isinstance(n.value, ast.Name) and n.value.id in ("Dimension", "Prefix", "Unit") and not (mname_ == "measured" and id(n) in in_classes):
                readers.append("%s line %d: %s" % (mname_, n.lineno, ast.unparse(n)))
    res["C20/static:no-lock-free-registry-reader"] = {"status": "discharged" if not readers else "refuted", "ms": 0, "backend": "static-scan", "complete": True, "note": "; ".join(readers)}
    return res


def _lean_file(name):
    """check lemmas/<name> with Lean 4 + Mathlib; the result is cached in .build/ keyed by the file's sha256"""
    import hashlib, json, os, subprocess, fcntl
    root = os.path.dirname(os.path.dirname(os.path.abspath(__file__)))
    path = os.path.join(root, "lemmas", name)
    text = open(path, encoding="utf-8").read()
    sha = hashlib.sha256(text.encode()).hexdigest()
    build = os.path.join(root, ".build")
    os.makedirs(build, exist_ok=True)
    marker = os.path.join(build, "lean_ok_%s.json" % name)
    oid = "lemmas/lean:%s-checked" % name
    if "sorry" in text or "axiom " in text:
        return {oid: {"status": "refuted", "note": "%s contains sorry/axiom" % name, "ms": 0, "backend": "lean", "complete": True}}
    with open(os.path.join(build, "lock"), "w") as lk:
        fcntl.flock(lk, fcntl.LOCK_EX)
        try:
            if os.path.exists(marker) and json.load(open(marker)).get("sha") == sha:
                return {oid: {"status": "discharged", "note": "lean (cached result for this file hash)", "ms": 0, "backend": "lean-4"}}
        except Exception:
            pass
        import time
        t = time.time()
        try:
            p = subprocess.run(["lean", path], capture_output=True, text=True, timeout=1500)
            ok = p.returncode == 0 and "error" not in p.stdout
        except Exception as e:
            return {oid: {"status": "undecided", "note": "lean could not be run: %s" % e, "ms": 0, "backend": "lean"}}
        if ok:
            json.dump({"sha": sha}, open(marker, "w"))
            return {oid: {"status": "discharged", "note": "lean exit 0", "ms": round((time.time() - t) * 1000), "backend": "lean-4"}}
        return {oid: {"status": "undecided", "note": "lean reported errors: %s" % p.stdout[-300:], "ms": 0, "backend": "lean"}}


def lean_lemmas(src):
    """the fold lemma schemas behind contracts/lemmas.py are proved in Lean 4 + Mathlib (lemmas/Fold.lean)"""
    return _lean_file("Fold.lean")


def lean_affine(src):
    """the affine lemma and the unfolding equations behind the loop specs of conversions.convert (lemmas/Affine.lean)"""
    return _lean_file("Affine.lean")


def registry_memo(src):
    """C13/C17/C19: no memoised function reads the name/symbol registries (a memoised lookup would keep answering from
    the bindings of the moment it was first asked, whatever is declared afterwards), directly or through a function of
    the same class that does."""
    prog = Program(src)
    REG = ("_by_name", "_by_symbol")
    readers = {}
    for f in prog.all_functions():
        for n in ast.walk(f.node):
            if isinstance(n, ast.Attribute) and n.attr in REG:
                readers.setdefault(f.qual, set()).add(n.attr)
    # one level of calls: a memoised function calling a reader (cls.resolve_symbol(...), Unit.named(...))
    short = {q.split(".")[-1]: q for q in readers}
    bad = []
    for f in prog.all_functions():
        if not f.memo:
            continue
        if f.qual in readers:
            bad.append("%s reads %s" % (f.qual, sorted(readers[f.qual])))
            continue
        for c in _calls(f.node):
            last = c.split(".")[-1]
            if last in short and last not in ("__init__", "__new__"):
                bad.append("%s calls %s" % (f.qual, short[last]))
    oid = "registry/static:no-memoised-function-reads-the-name-registries"
    return {oid: {"status": "discharged" if not bad else "refuted", "note": "; ".join(sorted(set(bad))), "ms": 0, "backend": "static-scan", "complete": True}}


def core_state(src):
    """the library keeps no mutable class-level or module-level state besides the intern tables and
    registries the contracts talk about (any other cache makes results depend on the call history)"""
    prog = Program(src)
    core = prog.modules["measured"]
    allowed = {"Dimension": {"_known", "_fundamental", "_by_name"}, "Prefix": {"_known", "_by_name", "_by_symbol"},
               "Unit": {"_known", "_base", "_by_name", "_by_symbol"}, "Logarithm": {"_known"}, "LogarithmicUnit": {"_known"}}
    extra = []

    def mutable(val):
        return isinstance(val, (ast.Dict, ast.List, ast.Set, ast.DictComp, ast.ListComp, ast.SetComp)) or (
            isinstance(val, ast.Call) and ast.unparse(val.func) in ("dict", "list", "set", "defaultdict", "OrderedDict", "collections.defaultdict"))

    for cname, ci in core.classes.items():
        for sub in ci.node.body:
            tgt = val = None
            if isinstance(sub, ast.Assign) and len(sub.targets) == 1 and isinstance(sub.targets[0], ast.Name):
                tgt, val = sub.targets[0].id, sub.value
            elif isinstance(sub, ast.AnnAssign) and isinstance(sub.target, ast.Name) and sub.value is not None:
                tgt, val = sub.target.id, sub.value
            if tgt and mutable(val) and tgt not in allowed.get(cname, set()):
                extra.append("%s.%s (line %d)" % (cname, tgt, sub.lineno))
    for node in core.tree.body:
        tgt = val = None
        if isinstance(node, ast.Assign) and len(node.targets) == 1 and isinstance(node.targets[0], ast.Name):
            tgt, val = node.targets[0].id, node.value
        elif isinstance(node, ast.AnnAssign) and isinstance(node.target, ast.Name) and node.value is not None:
            tgt, val = node.target.id, node.value
        if tgt and mutable(val) and tgt not in ("ROOT_POWER_DIMENSIONS",):
            extra.append("%s (line %d)" % (tgt, node.lineno))
    return {"state/static:no-mutable-state-besides-the-registries": {
        "status": "discharged" if not extra else "refuted", "ms": 0, "backend": "static-scan", "complete": True,
        "note": "mutable class/module-level state outside the registries: %s" % ", ".join(extra) if extra else ""}}


def intern_key_order(src):
    """C02 canonicity rests on the intern key being a FUNCTION of the factor map: Unit._build_key lists the items in an order
    given by an injective key (the identity of the interned base unit, assumption A6).  A sort key that can tie - a symbol, a name,
    a dimension - makes the key depend on insertion order, and a*b and b*a two objects."""
    prog = Program(src)
    fi = prog.func("measured.Unit._build_key")
    oid = "C02/static:intern-key-lists-factors-by-an-injective-key"
    if fi is None:
        return {oid: {"status": "undecided", "note": "Unit._build_key not found", "ms": 0, "backend": "static-scan"}}
    ok = False
    for n in ast.walk(fi.node):
        if isinstance(n, ast.Call) and isinstance(n.func, ast.Name) and n.func.id == "sorted":
            key = [k.value for k in n.keywords if k.arg == "key"]
            if key and isinstance(key[0], ast.Lambda) and ast.unparse(key[0].body).replace(" ", "") in ("id(pair[0])", "id(%s[0])" % key[0].args.args[0].arg):
                ok = True
    res = {oid: {"status": "discharged" if ok else "undecided", "ms": 0, "backend": "static-scan", "function": fi.qual, "deps": {fi.qual: fi.sha},
                 "note": "" if ok else "the factor items are not sorted by id(<unit>): the order (and so the intern key) may depend on insertion order"}}
    return res


def c20_publication(src):
    """C20: an interned object is visible to other threads from the moment __new__ registers it, and a second thread that obtains it
    runs __init__ again (harmlessly, as long as every field is set by ONE assignment of a complete value).  The view fields of
    Dimension / Prefix / Unit are therefore assigned exactly once each in __init__, by a plain `self.<field> = <expr>` statement outside
    any loop, and never filled in step by step (item assignment, augmented assignment, mutating method call on self.<field>)."""
    prog = Program(src)
    VIEW = {"Unit": ("prefix", "factors", "dimension"), "Prefix": ("base", "exponent"), "Dimension": ("exponents",)}
    MUT = {"append", "extend", "insert", "pop", "remove", "clear", "update", "setdefault", "add", "discard", "popitem", "sort"}
    res = {}
    for cname, fields in VIEW.items():
        fi = prog.method("measured", cname, "__init__")
        oid = "C20/static:%s.__init__-publishes-each-view-field-by-one-assignment" % cname
        if fi is None:
            res[oid] = {"status": "undecided", "note": "__init__ not found", "ms": 0, "backend": "static-scan"}
            continue
        bad = []
        loops = [n for n in ast.walk(fi.node) if isinstance(n, (ast.For, ast.While, ast.ListComp, ast.DictComp))]
        in_loop = {id(x) for l in loops if isinstance(l, (ast.For, ast.While)) for x in ast.walk(l)}
        counts = {f: 0 for f in fields}
        for n in ast.walk(fi.node):
            def is_self_field(t):
                return isinstance(t, ast.Attribute) and isinstance(t.value, ast.Name) and t.value.id == "self" and t.attr in fields
            if isinstance(n, ast.Assign):
                for t in n.targets:
                    if is_self_field(t):
                        counts[t.attr] += 1
                        if id(n) in in_loop:
                            bad.append("self.%s assigned inside a loop (line %d)" % (t.attr, n.lineno))
                    if isinstance(t, ast.Subscript) and is_self_field(t.value):
                        bad.append("self.%s filled in item by item (line %d)" % (t.value.attr, n.lineno))
            elif isinstance(n, ast.AugAssign) and (is_self_field(n.target) or (isinstance(n.target, ast.Subscript) and is_self_field(n.target.value))):
                bad.append("augmented assignment on self.%s (line %d)" % ((n.target.attr if isinstance(n.target, ast.Attribute) else n.target.value.attr), n.lineno))
            elif isinstance(n, ast.Call) and isinstance(n.func, ast.Attribute) and n.func.attr in MUT and is_self_field(n.func.value):
                bad.append("self.%s.%s(...) (line %d)" % (n.func.value.attr, n.func.attr, n.lineno))
        for f, c in counts.items():
            if c != 1:
                bad.append("self.%s assigned %d times" % (f, c))
        res[oid] = {"status": "discharged" if not bad else "refuted", "note": "; ".join(bad), "ms": 0, "backend": "static-scan", "complete": True}
    return res


def alloc_sites(src):
    """C02/C15/C20: objects of the interned classes come into being in ONE place each, the `super().__new__(cls)` of their own `__new__`
    (under the interning lock, right next to the registration).  `object.__new__(...)`, or a `__new__` call anywhere else, creates an
    instance the intern table does not know, which no arithmetic can ever return."""
    prog = Program(src)
    bad = []
    for m, q, n in _enclosing(prog):
        if not isinstance(n, ast.Call):
            continue
        f = n.func
        if isinstance(f, ast.Attribute) and f.attr == "__new__":
            owner = ast.unparse(f.value)
            inside_new = q.endswith(".__new__") and m.name == "measured"
            if owner == "object" or not (inside_new and owner == "super()"):
                if m.name in ("measured._parser",):
                    continue
                bad.append("%s:%s line %d: %s.__new__(...)" % (m.name, q, n.lineno, owner))
    return {"intern/static:instances-are-allocated-only-in-their-interning-constructor": {
        "status": "discharged" if not bad else "refuted", "ms": 0, "backend": "static-scan", "complete": True, "note": "; ".join(bad)}}


def process_state(src):
    """no function of the library proper rebinds a module-level name (`global` / `nonlocal` caches) or changes
    process-wide interpreter state (the decimal context, recursion limit, locale, random seed, environment,
    warning filters): either makes a result depend on which calls came before, or on another thread"""
    prog = Program(src)
    bad = []
    DENY = {"getcontext", "setcontext", "setrecursionlimit", "setlocale", "seed", "simplefilter", "filterwarnings", "setswitchinterval", "putenv"}
    for m in prog.modules.values():
        if m.name in ("measured.json", "measured.hypothesis", "measured.pytest", "measured.cli", "measured.ipython", "measured.pydantic", "measured.sqlalchemy", "measured.django"):
            continue  # integration glue (codec installer, test helpers), outside the properties
        for n in ast.walk(m.tree):
            if isinstance(n, (ast.Global, ast.Nonlocal)):
                bad.append("%s line %d: %s %s" % (m.name, n.lineno, type(n).__name__.lower(), ", ".join(n.names)))
            elif isinstance(n, ast.Call):
                f = n.func
                name = f.attr if isinstance(f, ast.Attribute) else f.id if isinstance(f, ast.Name) else ""
                if name in DENY:
                    bad.append("%s line %d: call of %s()" % (m.name, n.lineno, name))
            elif isinstance(n, ast.Subscript) and isinstance(n.ctx, (ast.Store, ast.Del)) and ast.unparse(n.value) in ("os.environ", "environ"):
                bad.append("%s line %d: writes os.environ" % (m.name, n.lineno))
    return {"state/static:no-global-rebinding-or-process-wide-state": {
        "status": "discharged" if not bad else "refuted", "ms": 0, "backend": "static-scan", "complete": True, "note": "; ".join(bad)}}


def memo_results(src):
    """a value handed out by a memoised function is shared with every later caller: nobody may change it in place
    (item/slice assignment, del, augmented assignment, append/extend/insert/pop/remove/sort/reverse/clear/update/add)"""
    prog = Program(src)
    memo = {f.name for f in prog.all_functions() if f.memo}
    MUT = {"append", "extend", "insert", "pop", "remove", "sort", "reverse", "clear", "update", "add", "discard", "setdefault", "popitem"}
    bad = []
    for f in prog.all_functions():
        holders = {}
        for n in ast.walk(f.node):
            if isinstance(n, ast.Assign) and isinstance(n.value, ast.Call):
                callee = ast.unparse(n.value.func).split(".")[-1]
                if callee in memo:
                    for t in n.targets:
                        for x in ast.walk(t):
                            if isinstance(x, ast.Name):
                                holders[x.id] = callee
        if not holders:
            continue
        for n in ast.walk(f.node):
            if isinstance(n, ast.Subscript) and isinstance(n.ctx, (ast.Store, ast.Del)) and isinstance(n.value, ast.Name) and n.value.id in holders:
                bad.append("%s line %d: item assignment on the result of %s" % (f.qual, n.lineno, holders[n.value.id]))
            elif isinstance(n, ast.AugAssign) and isinstance(n.target, ast.Name) and n.target.id in holders:
                bad.append("%s line %d: augmented assignment on the result of %s" % (f.qual, n.lineno, holders[n.target.id]))
            elif isinstance(n, ast.Call) and isinstance(n.func, ast.Attribute) and n.func.attr in MUT and isinstance(n.func.value, ast.Name) and n.func.value.id in holders:
                bad.append("%s line %d: %s() on the result of %s" % (f.qual, n.lineno, n.func.attr, holders[n.func.value.id]))
    return {"memo/static:results-of-memoised-functions-are-not-mutated": {
        "status": "discharged" if not bad else "refuted", "ms": 0, "backend": "static-scan", "complete": True, "note": "; ".join(bad)}}


def registry_writers(src):
    """names and symbols are bound only by the declaring functions (alias, the named constructors, derive):
    parsing and every other query leave the registries alone (C17, C19)"""
    prog = Program(src)
    core = prog.modules["measured"]
    allowed = {("Unit", "alias"), ("Prefix", "__init__"), ("Dimension", "__init__"), ("Dimension", "derive")}
    bad = []
    for m in prog.modules.values():
        if m.name in ("measured.hypothesis", "measured.pytest"):
            continue
        for node in ast.walk(m.tree):
            pass
    for cname, ci in core.classes.items():
        for mname, fi in ci.methods.items():
            for n in ast.walk(fi.node):
                if isinstance(n, ast.Subscript) and isinstance(n.ctx, (ast.Store, ast.Del)) and isinstance(n.value, ast.Attribute) and n.value.attr in ("_by_name", "_by_symbol"):
                    if (cname, mname) not in allowed:
                        bad.append("%s.%s line %d writes %s" % (cname, mname, n.lineno, n.value.attr))
    for mod in prog.modules.values():
        if mod.name == "measured":
            continue
        for n in ast.walk(mod.tree):
            if isinstance(n, ast.Subscript) and isinstance(n.ctx, (ast.Store, ast.Del)) and isinstance(n.value, ast.Attribute) and n.value.attr in ("_by_name", "_by_symbol"):
                bad.append("%s line %d writes %s" % (mod.name, n.lineno, n.value.attr))
    return {"registry/static:only-declaring-functions-write-names-and-symbols": {
        "status": "discharged" if not bad else "refuted", "ms": 0, "backend": "static-scan", "complete": True, "note": "; ".join(bad)}}
