"""Static (syntactic) obligations over the real AST: frames and call-site scans."""
import ast
from pyvc.frontend import Program
from contracts import registry


def _enclosing(prog):
    """yield (module, qualname of enclosing function or '<module>', node) for every node"""
    for m in prog.modules.values():
        def visit(node, qual):
            for ch in ast.iter_child_nodes(node):
                q = qual
                if isinstance(ch, ast.ClassDef):
                    q = (qual + "." if qual != "<module>" else "") + ch.name
                elif isinstance(ch, ast.FunctionDef):
                    q = (qual + "." if qual != "<module>" else "") + ch.name
                yield m, q, ch
                yield from visit(ch, q)
        yield from visit(m.tree, "<module>")


def c01_frame(src):
    """Only Unit.__init__ writes .dimension/.factors of a unit, only Unit.__new__ writes
    Unit._known; every Unit(...) constructor call site is under a verified contract (its
    C01 precondition is then an obligation there) or derives the dimension argument from
    the factors argument with Unit._dimension_of."""
    prog = Program(src)
    res = {}
    bad_writes, sites = [], []
    for m, q, n in _enclosing(prog):
        if m.name in ("measured.pytest", "measured.hypothesis", "measured.cli"):
            pass
        if isinstance(n, ast.Attribute) and isinstance(n.ctx, ast.Store) and n.attr in ("dimension", "factors"):
            if not (m.name == "measured" and q == "Unit.__init__"):
                bad_writes.append("%s:%s line %d writes .%s" % (m.name, q, n.lineno, n.attr))
        if isinstance(n, ast.Subscript) and isinstance(n.ctx, (ast.Store, ast.Del)) and isinstance(n.value, ast.Attribute) and n.value.attr == "_known":
            owner = q.split(".")[0]
            if owner == "Unit" and q != "Unit.__new__":
                bad_writes.append("%s:%s line %d writes Unit._known" % (m.name, q, n.lineno))
        if isinstance(n, ast.Call):
            f = n.func
            is_ctor = (isinstance(f, ast.Name) and f.id == "Unit") or (isinstance(f, ast.Name) and f.id == "cls" and q.startswith("Unit.") and m.name == "measured")
            if is_ctor and (len(n.args) >= 3 or any(k.arg == "dimension" for k in n.keywords)):
                sites.append((m, q, n))
    res["C01/frame:only-Unit.__init__-writes-dimension-and-factors"] = {
        "status": "discharged" if not bad_writes else "refuted", "note": "; ".join(bad_writes), "ms": 0, "backend": "static-scan"}
    for m, q, n in sites:
        qual = m.name + "." + q
        oid = "C01/ctor-site:%s@%s" % (q, _site_ordinal(sites, m, q, n))
        K = registry.CONTRACTS.get(qual)
        dim_arg = n.args[2] if len(n.args) >= 3 else [k.value for k in n.keywords if k.arg == "dimension"][0]
        fac_arg = n.args[1] if len(n.args) >= 2 else None
        derived = (isinstance(dim_arg, ast.Call) and ast.unparse(dim_arg.func) in ("Unit._dimension_of", "cls._dimension_of", "self._dimension_of")
                   and fac_arg is not None and len(dim_arg.args) == 1 and ast.dump(dim_arg.args[0]) == ast.dump(fac_arg))
        if K is not None and not K.trusted and "C01" in K.props:
            res[oid] = {"status": "discharged", "note": "call-pre obligation generated in the proof of %s" % qual, "ms": 0, "backend": "static-scan"}
        elif derived:
            res[oid] = {"status": "discharged", "note": "dimension argument is Unit._dimension_of(<factors argument>) (contract of _dimension_of)", "ms": 0, "backend": "static-scan"}
        else:
            res[oid] = {"status": "undecided", "note": "constructor call site in %s is not under a C01 contract" % qual, "ms": 0, "backend": "static-scan"}
    return res


def _site_ordinal(sites, m, q, n):
    same = [x for x in sites if x[0] is m and x[1] == q]
    return same.index((m, q, n))
