"""Check driver:  python3-vt -m checks.run <PROP> [--tier quick|thorough] [--src DIR] [--update-ledger]

Per property: (1) contract proofs of the real source by pyvc (process pool), (2) static
obligations (frames, call-site scans), (3) the native bounded stand-in on the real code,
(4) verdict, evidence file, replay files.  Exit 0 held / 1 violation / 3 internal error.
"""
import argparse
import json
import os
import subprocess
import sys
import tempfile
import time
import traceback
from concurrent.futures import ProcessPoolExecutor, as_completed

ROOT = os.path.dirname(os.path.dirname(os.path.abspath(__file__)))
sys.path.insert(0, ROOT)
LEDGER = os.path.join(ROOT, "baseline_obligations.json")
FINDINGS = os.path.join(ROOT, "known_findings.json")
VENV_PY = "/venv/bin/python"
STRICT = os.environ.get("VERIF_STRICT", "1") != "0"

ASSUMPTIONS = [
    "A1 module/class-level names are bound once and not monkey-patched",
    "A2 type annotations are truthful (sort hints); isinstance dispatch is still executed symbolically",
    "A3 Python int is a mathematical integer",
    "A4 float and Decimal are mathematical reals tagged with a kind; no rounding claim is proved",
    "A6 dict/tuple/set semantics as finite maps/sequences/sets; sorted(items, key=id) is an injective canonical listing",
    "A7 contracts of the builtins in pyvc/builtins.py (cross-checked natively)",
    "A8 only raise/assert/KeyError/IndexError/ZeroDivisionError/TypeError(Decimal,float) are modelled; exception payload formatting is not evaluated",
    "A9 sequential execution",
    "engine rule R-acc (loop summary for `for k,v in M.items(): A[k] +-= f(v)`) and the fold lemma schemas of lemmas/Fold.lean",
    "z3 is trusted as the back end",
]


def _verify_one(args):
    qual, src, timeout_ms, hints = args[:4]
    only = args[4] if len(args) > 4 else None
    os.environ["VERIF_SRC"] = src
    from pyvc.frontend import Program
    from pyvc.verify import Verifier
    from contracts import registry
    try:
        prog = Program(src)
        for _n, _p in registry.SIDE_MODULES.items():
            prog.add_module(_n, _p)
        V = Verifier(prog, registry.SCHEMA, registry.CONTRACTS, registry.SPEC, timeout_ms=(1200 if "canary_" in qual else timeout_ms))
        V.hints = hints
        V.only = only
        return V.verify(qual)
    except Exception as e:  # never let an engine crash look like a verdict
        return {"function": qual, "results": {}, "error": "internal: %s\n%s" % (e, traceback.format_exc()), "paths": 0, "vacuity": []}


def run_proofs(quals, src, timeout_ms, workers, hints=None, only=None):
    out = {}
    hints = hints or {}
    if not quals:
        return out
    with ProcessPoolExecutor(max_workers=min(workers, len(quals))) as ex:
        futs = {ex.submit(_verify_one, (q, src, timeout_ms, hints, (only or {}).get(q))): q for q in quals}
        for f in as_completed(futs):
            q = futs[f]
            try:
                out[q] = f.result()
            except Exception as e:
                out[q] = {"function": q, "results": {}, "error": "internal: %s" % e, "paths": 0, "vacuity": []}
    return out


def run_native(prop, tier, seed, src):
    if not os.path.exists(os.path.join(ROOT, "native", "p_%s.py" % prop.lower())):
        return None
    env = dict(os.environ)
    env["PYTHONPATH"] = ROOT + (os.pathsep + src if src != "/repo/src" else "")
    if src != "/repo/src":
        env["PYTHONPATH"] = src + os.pathsep + ROOT
    with tempfile.NamedTemporaryFile(suffix=".json", delete=False) as tf:
        outp = tf.name
    try:
        p = subprocess.run([VENV_PY, "-m", "native.run", prop, "--tier", tier, "--seed", str(seed), "--out", outp],
                           cwd=ROOT, env=env, capture_output=True, text=True, timeout=3000)
        try:
            res = json.load(open(outp))
        except Exception:
            res = {"evaluations": 0, "distinct": 0, "failures": [], "samples": [], "error": "native harness produced no output: " + p.stderr[-2000:]}
        return res
    finally:
        if os.path.exists(outp):
            os.remove(outp)


def _second(args):
    cmd, path = args
    try:
        p = subprocess.run(cmd + [path], capture_output=True, text=True, timeout=90)
        out = (p.stdout.strip().splitlines() or ["error"])[0]
        return path, out if out in ("unsat", "sat", "unknown") else "unknown" if "timeout" in out else "error"
    except Exception:
        return path, "error"


def cross_check(cross_dir, obl):
    """thorough tier: every quantifier-free core refuted by z3 5.1 (strategies qfi/qf/qfix) is re-checked by the Debian
    z3 4.8.12 binary, and by cvc5 1.0.3 when the core has no z3-only construct (array lambdas).  A `sat` from either is
    recorded as an undecided obligation (it degrades, it never becomes a violation by itself)."""
    import glob
    import shutil
    from concurrent.futures import ThreadPoolExecutor
    files = sorted(glob.glob(os.path.join(cross_dir, "*.smt2")))
    res = {"cores": len(files), "z3-4.8.12": {}, "cvc5-1.0.3": {}, "disagreements": []}
    jobs = [(["/usr/bin/z3", "-T:30"], f) for f in files]
    plain = [f for f in files if "(lambda " not in open(f).read()]
    jobs2 = [(["/usr/bin/cvc5", "--tlimit=30000", "-q", "--strings-exp"], f) for f in plain]
    with ThreadPoolExecutor(8) as ex:
        for name, js in (("z3-4.8.12", jobs), ("cvc5-1.0.3", jobs2)):
            for path, out in ex.map(_second, js):
                res[name][out] = res[name].get(out, 0) + 1
                if out == "sat":
                    oid = open(path).readline().split("obligation ", 1)[-1].split(" (strategy")[0].strip()
                    res["disagreements"].append({"solver": name, "obligation": oid})
                    obl["crosscheck/%s:%s" % (name, oid)] = {"status": "undecided", "ms": 0, "backend": name,
                                                           "note": "%s answers sat on the quantifier-free core z3 5.1 refuted" % name}
    shutil.rmtree(cross_dir, ignore_errors=True)
    return res


def replay_known(entry, src):
    """an open finding suppresses its obligation only while its witness still fails natively"""
    rp = entry.get("witness", {}).get("replay")
    if not rp:
        return True
    env = dict(os.environ)
    if src != "/repo/src":
        env["PYTHONPATH"] = src
    p = subprocess.run([VENV_PY, os.path.join(ROOT, rp)], env=env, capture_output=True, text=True, timeout=600)
    return p.returncode == 1


def main():
    ap = argparse.ArgumentParser()
    ap.add_argument("prop")
    ap.add_argument("--tier", default=os.environ.get("VERIF_TIER", "quick"))
    ap.add_argument("--src", default=os.environ.get("VERIF_SRC", "/repo/src"))
    ap.add_argument("--update-ledger", action="store_true")
    ap.add_argument("--no-native", action="store_true")
    a = ap.parse_args()
    prop, tier, src = a.prop, a.tier, a.src
    os.environ["VERIF_SRC"] = src
    seed = int(os.environ.get("VERIF_SEED", "0") or 0)
    t0 = time.time()
    from checks import props
    from contracts import registry
    cfg = props.PROPS[prop]
    workers = int(os.environ.get("VERIF_WORKERS", "6"))
    os.environ.setdefault("VERIF_INNER", "3")
    timeout_ms = 8000 if tier == "quick" else 30000

    ledger = json.load(open(LEDGER)) if os.path.exists(LEDGER) else {}
    tagged = sorted(q for q, K in registry.CONTRACTS.items() if prop in K.props and not K.trusted)
    findings_all = json.load(open(FINDINGS)) if os.path.exists(FINDINGS) else []
    quals = _closure(prop, tagged, ledger, registry.CONTRACTS, findings_all) if cfg.get("closure", True) else tagged
    trusted = sorted(q for q, K in registry.CONTRACTS.items() if (prop in K.props or q in quals) and K.trusted)
    quals = [q for q in quals if not registry.CONTRACTS[q].trusted]
    hints = {}
    for p_, obl_ in ledger.items():  # the strategy that discharged an obligation is a fact about the obligation, whichever property's run recorded it
        if p_ != "__deps__":
            hints.update({oid: v.get("strategy") for oid, v in obl_.items() if isinstance(v, dict) and v.get("strategy") not in (None, "plain-fast")})
    hints.update({oid: v.get("strategy") for oid, v in ledger.get(prop, {}).items() if isinstance(v, dict) and v.get("strategy") not in (None, "plain-fast")})
    cross_dir = None
    if tier == "thorough" and not a.update_ledger:
        # second-solver cross-check: the quantifier-free cores z3 5.1 refutes are written out and re-checked by other binaries
        cross_dir = tempfile.mkdtemp(prefix="verif_cross_")
        os.environ["VERIF_CROSS_DIR"] = cross_dir
    proofs = run_proofs(quals, src, timeout_ms, workers, hints)
    os.environ.pop("VERIF_CROSS_DIR", None)
    static_res = {}
    for fn in cfg.get("static", []):
        try:
            static_res.update(fn(src))
        except Exception as e:
            static_res["%s/static:%s" % (prop, fn.__name__)] = {"status": "undecided", "note": "internal: %s" % e, "ms": 0}

    obl = {}
    errors = {}
    for q, r in proofs.items():
        if r.get("error"):
            errors[q] = r["error"]
        for oid, res in r["results"].items():
            obl[oid] = dict(res, function=q)
        if r.get("error"):
            # the executor stopped (unsupported construct / internal error): the obligations it did not reach are not
            # generated at all; they are accounted for as one undecided obligation so that the loss is visible
            fn = q.replace("measured.", "")
            lost = [oid for oid in ledger.get(prop, {}) if oid.startswith(fn + "/") and oid not in r["results"]]
            obl["%s/engine:unsupported" % fn] = {"status": "undecided", "ms": 0, "function": q,
                                                  "note": "%d obligation(s) of the ledger not generated: %s" % (len(lost), r["error"].splitlines()[0][:240])}
        for v in r.get("vacuity", []):
            if not v["requires_satisfiable"]:
                obl["%s/vacuity:%s" % (q.replace("measured.", ""), v["combo"])] = {"status": "undecided", "note": "contradictory requires", "ms": 0, "function": q}
    obl.update(static_res)
    cross = cross_check(cross_dir, obl) if cross_dir else None
    # vacuity canaries (DESIGN 2.10): a deliberately false lemma must NOT be provable
    for oid in list(obl):
        if "lemmas.canary_" in oid and "/unexpected:AssertionError" in oid:
            if obl[oid]["status"] == "discharged":
                obl[oid] = dict(obl[oid], status="undecided", note="vacuity: the canary (a false lemma) was proved, the lemma hypotheses are contradictory")
            else:
                obl[oid] = dict(obl[oid], status="discharged", note="canary not provable, as required (%s)" % obl[oid]["status"], strategy="plain-fast")

    base = {oid: (v["status"] if isinstance(v, dict) else v) for oid, v in ledger.get(prop, {}).items()}
    if a.update_ledger:
        prev = ledger.get(prop, {})
        ledger[prop] = {oid: {"status": r["status"], "strategy": r.get("strategy") or (prev.get(oid, {}).get("strategy") if isinstance(prev.get(oid), dict) else None)}
                        for oid, r in sorted(obl.items())}
        ledger.setdefault("__deps__", {})[prop] = {q: r.get("deps") for q, r in sorted(proofs.items()) if r.get("deps")}
        ledger["__deps__"][prop].update({"@" + oid: r["deps"] for oid, r in sorted(static_res.items()) if r.get("deps")})
        json.dump(ledger, open(LEDGER, "w"), indent=1, sort_keys=True)
        print("ledger updated for %s: %d obligations, %d discharged" % (prop, len(obl), sum(1 for r in obl.values() if r["status"] == "discharged")))

    findings = [f for f in json.load(open(FINDINGS)) if f["property"] == prop] if os.path.exists(FINDINGS) else []
    open_f = [f for f in findings if f["status"] == "open"]

    native = None if a.no_native else run_native(prop, tier, seed, src)

    # A proof that was complete in the committed ledger and is not completed now.  If the source text the VCs
    # were generated from (the function and every callee executed in line) is byte-identical to the ledger's,
    # the VC is the same formula and the miss is solver noise: it only degrades.  If the source CHANGED, the
    # function's failing obligations are tried again with twice the budget; what still fails then is a failed obligation of
    # changed code and is reported (with the stand-in's failing input when there is one).
    base_deps = ledger.get("__deps__", {}).get(prop, {})
    # an obligation the ledger does not know (a new call site, a renumbered one) in a function whose every ledger
    # obligation was discharged counts as "was discharged": the function verified completely before the change
    by_fn = {}
    for oid, st_ in base.items():
        by_fn.setdefault(oid.split("/")[0], []).append(st_)
    for oid, r in obl.items():
        fnkey = oid.split("/")[0]
        if oid not in base and r.get("function") and "/engine:" not in oid and by_fn.get(fnkey) and all(x == "discharged" for x in by_fn[fnkey]):
            base[oid] = "discharged"
    changed_fns = set()
    for oid, r in obl.items():
        q = r.get("function")
        if r["status"] == "discharged" or not q or base.get(oid) != "discharged":
            continue
        if r.get("deps") is not None:
            # a static verdict about one function's text: no second attempt, the scan is deterministic
            known_shas = {}
            for k_, d_ in base_deps.items():
                if k_.startswith("@"):
                    known_shas.update(d_)
            if any(known_shas.get(fq) != sha for fq, sha in r["deps"].items()):
                r["source_changed"] = True
        elif q in base_deps and proofs.get(q, {}).get("deps") and proofs[q]["deps"] != base_deps[q]:
            changed_fns.add(q)
    escalated = {}
    _nk = [k for f in open_f for k in f.get("native_keys", [])]
    native_found = bool(native and [f for f in native.get("failures", []) if not any(f["key"].startswith(k) for k in _nk)])
    if changed_fns and not a.update_ledger and not native_found:
        # second attempt with twice the budget: only obligations that failed, at most three per function (posts first)
        only = {}
        for q in changed_fns:
            f_ = sorted((oid for oid, r in obl.items() if r.get("function") == q and r["status"] != "discharged" and base.get(oid) == "discharged" and "canary_" not in oid),
                        key=lambda o: (0 if "/post:" in o else 1, o))
            only[q] = set(f_[:3])
        again = run_proofs(sorted(changed_fns), src, timeout_ms * 2, workers, hints, only)
        for q, r2 in again.items():
            for oid, res in r2["results"].items():
                if oid in obl and obl[oid]["status"] != "discharged":
                    if "lemmas.canary_" in oid:
                        continue
                    escalated[oid] = res["status"]
                    if res["status"] == "discharged":
                        obl[oid] = dict(res, function=q, note="discharged on the second attempt (2x budget)")
                    else:
                        obl[oid] = dict(res, function=q, source_changed=True)
        for q in changed_fns:
            # obligations beyond the three retried ones share the verdict of the function: changed code whose proof fails
            if any(obl[o].get("source_changed") for o in only[q] if o in obl):
                for oid, r in obl.items():
                    if r.get("function") == q and r["status"] != "discharged" and base.get(oid) == "discharged" and "canary_" not in oid:
                        r["source_changed"] = True

    bad = {oid: r for oid, r in obl.items() if r["status"] != "discharged"}
    known_lines, suppressed_obl, suppressed_native = [], set(), []
    for f in open_f:
        still = replay_known(f, src)
        if still:
            for o in f.get("obligations", [f.get("obligation")] if f.get("obligation") else []):
                suppressed_obl.add(o)
            for k in f.get("native_keys", []):
                suppressed_native.append(k)
            known_lines.append("KNOWN-FINDING: property=%s %s" % (prop, f.get("what_fails", f.get("obligation", ""))))

    violations = []
    OUT = os.environ.get("VERIF_OUT", ROOT)  # developer runs against scratch copies write elsewhere
    rdir = os.path.join(OUT, "replays", prop)
    nfail = [] if native is None else [f for f in native.get("failures", []) if not any(f["key"].startswith(k) for k in suppressed_native)]
    unlisted_bad = {oid: r for oid, r in bad.items() if oid not in suppressed_obl}
    from native.common import write_replay
    for i, f in enumerate(nfail):
        path = os.path.join(rdir, "violation_%d.py" % i)
        write_replay(path, prop, sorted(unlisted_bad) or "none (found by the bounded stand-in only)", f["desc"], f.get("replay_body", "sys.exit(1)\n"))
        violations.append("VIOLATION property=%s replay=%s" % (prop, path))
    degraded = []
    if not nfail:
        for oid, r in sorted(unlisted_bad.items()):
            was = base.get(oid)
            closed_static = r["status"] == "refuted" and r.get("complete") and r.get("backend") in ("static-scan", "lean")
            failed_changed = STRICT and was == "discharged" and r.get("source_changed")
            if closed_static or failed_changed or (r["status"] == "refuted" and was == "discharged" and (r.get("complete") or not _has_ghost_folds(r))):
                path = os.path.join(rdir, "refuted_%s.py" % "".join(ch if ch.isalnum() else "_" for ch in oid))
                why = ("obligation %s was discharged on the baseline and is now refuted by the solver" % oid) if r["status"] == "refuted" else \
                      ("obligation %s was discharged on the baseline; the source of %s changed and the obligation is no longer discharged (%s: %s), "
                       "also not on a second attempt with twice the solver budget" % (oid, r.get("function"), r["status"], (r.get("note") or "")[:200]))
                body = "print(%r)\nprint(%r)\nsys.exit(1)\n" % (why, (r.get("model") or r.get("note") or "")[:3000])
                write_replay(path, prop, [oid], "solver counter-model only; no failing input found in the bounded stand-in", body)
                violations.append("VIOLATION property=%s replay=%s obligation=%s no-failing-input-found" % (prop, path, oid))
            else:
                degraded.append(oid)

    for l in known_lines:
        print(l)
    for oid in degraded:
        print("DEGRADED: property=%s obligation %s is %s (%s); bounded stand-in found no failing input" % (prop, oid, bad[oid]["status"], (bad[oid].get("note") or "")[:120]))
    for q, e in errors.items():
        print("NOTE: %s: %s" % (q, e.splitlines()[0][:200]))
    if native is not None and native.get("error"):
        print("NOTE: native stand-in error: %s" % native["error"].splitlines()[0][:200])
    for v in violations:
        print(v)

    # evidence ---------------------------------------------------------------------------------------
    n_obl = len(obl)
    n_dis = sum(1 for r in obl.values() if r["status"] == "discharged")
    samples = [{"obligation": oid, "status": r["status"], "ms": r.get("ms"), "paths": r.get("paths"), "backend": r.get("backend", "static")}
               for oid, r in sorted(obl.items())[:8]]
    cov = {
        "obligations": n_obl, "discharged": n_dis,
        "checker_cmd": "python3-vt -m checks.run %s --tier %s" % (prop, tier),
        "trusted_base": trusted + cfg.get("trusted", []) + ["pyvc engine (VC generator) and its builtin contracts", "z3 " + _z3v()],
        "functions_under_contract": {q: {"sha": r.get("sha"), "line": r.get("line"), "paths": r.get("paths"), "wall_s": r.get("wall_s")} for q, r in sorted(proofs.items())},
        "undischarged": {oid: {"status": r["status"], "note": (r.get("note") or "")[:200]} for oid, r in sorted(bad.items())},
        "solver_ms_total": round(sum(r.get("ms", 0) or 0 for r in obl.values()), 1),
        "discharged_by": _count("%s/%s" % (r.get("backend", "static"), r.get("strategy") or "-") for r in obl.values() if r["status"] == "discharged"),
        "samples": samples,
        "source_files": _hashes(src),
        "known_findings": [f.get("what_fails", f.get("obligation")) for f in open_f],
    }
    if cross is not None:
        cov["second_solver"] = cross
    if native is not None:
        cov["bounded"] = {"label": "bounded stand-in on the real code (never counted as proved)", "evaluations": native.get("evaluations", 0),
                          "distinct_nontrivial": native.get("distinct", 0), "rule": native.get("rule", ""), "bound": native.get("bound", ""),
                          "failures": len(native.get("failures", [])), "samples": native.get("samples", [])[:5], "wall_s": native.get("wall_s")}
        cov["evaluations"] = max(1, native.get("evaluations", 0))
        cov["distinct_nontrivial"] = max(0, native.get("distinct", 0))
        cov["rule"] = native.get("rule", "")
    level = cfg.get("manifest_level", cfg.get("level", "proof"))
    if level == "proof" and (n_dis != n_obl or n_obl == 0):
        level = "other"  # never report a proof that was not completed on this run
    cov["explanation"] = cfg.get("explanation", "") + (" | run-time: %d/%d obligations discharged; undischarged ones are listed under 'undischarged'" % (n_dis, n_obl))
    ev = {"property_id": prop, "tier": tier, "seed": seed, "level": level, "coverage": cov,
          "assumptions": ASSUMPTIONS + cfg.get("assumptions", []), "wall_s": round(time.time() - t0, 2), "violations": len(violations)}
    os.makedirs(os.path.join(OUT, "evidence"), exist_ok=True)
    json.dump(ev, open(os.path.join(OUT, "evidence", prop + ".json"), "w"), indent=1, default=str)
    print("%s: %d/%d obligations discharged, %s, %.1fs" % (prop, n_dis, n_obl,
          "native %d evaluations, %d failures" % (native.get("evaluations", 0), len(native.get("failures", []))) if native else "no native stand-in", time.time() - t0))
    sys.exit(1 if violations else 0)


def _closure(prop, tagged, ledger, contracts, findings):
    """the contracts tagged with the property plus every contract they rest on: callees under contract (the `call-pre:<callee>#k`
    obligations of the ledger give the call edges) transitively.  A property is only as good as the functions its operations call,
    so a change to any of them is re-verified by this property's check.  Functions with a recorded open finding of ANOTHER property
    are not pulled in (their known undischarged obligation belongs to that property's check)."""
    import re
    edges = {}
    for p, obl in ledger.items():
        if p == "__deps__":
            continue
        for oid in obl:
            m = re.match(r"([^/]+)/call-pre:([^#]+)#", oid)
            if m:
                edges.setdefault("measured." + m.group(1) if not m.group(1).startswith("lemmas.") else m.group(1), set()).add("measured." + m.group(2))
    foreign = set()
    for f in findings:
        if f.get("status") == "open" and f.get("property") != prop:
            for o in f.get("obligations", [f.get("obligation")] if f.get("obligation") else []):
                foreign.add("measured." + o.split("/")[0])
    seen, todo = set(tagged), list(tagged)
    while todo:
        q = todo.pop()
        for c in edges.get(q, ()):
            if c in contracts and c not in seen and c not in foreign:
                seen.add(c)
                todo.append(c)
    return sorted(seen)


def _count(it):
    out = {}
    for x in it:
        out[x] = out.get(x, 0) + 1
    return out


def _has_ghost_folds(r):
    """a solver `sat` over uninterpreted ghost folds / real functions is not a closed refutation
    (the axiomatisation is incomplete): such an obligation only degrades"""
    m = r.get("model") or ""
    return any(k in m for k in ("dimOf", "bdexp", "bsize", "rpow", "rlog", "rsqrt", "noconv"))


def _z3v():
    import z3
    return z3.get_version_string()


def _hashes(src):
    from pyvc.frontend import Program
    try:
        return Program(src).file_hashes()
    except Exception:
        return {}


if __name__ == "__main__":
    main()
