"""Developer tool: python3-vt checks/debug.py <qual> <obligation-substring> : per-path strategy results"""
import sys, time
sys.path.insert(0, "/verif")
import z3
from pyvc.frontend import Program
from pyvc import verify as VV
from contracts import registry

_prog = Program()
for _n, _p in registry.SIDE_MODULES.items():
    _prog.add_module(_n, _p)
V = VV.Verifier(_prog, registry.SCHEMA, registry.CONTRACTS, registry.SPEC, timeout_ms=8000)
q, target = sys.argv[1], sys.argv[2]


def solve(out):
    n = 0
    for ob in V.obls:
        if target in ob.oid:
            n += 1
            full = list(V.eng.global_axioms) + list(ob.axioms) + list(V.spec.lemma_instances(ob)) + list(ob.pc)
            g = VV.intro(ob.goal)
            inst = VV.preinstantiate(full, g)
            core = [f for f in VV._flatten(list(full) + inst) if not VV._has_quant(f)]
            core += VV.divmod_instances(core + [g])
            s = z3.Solver(); s.set(timeout=8000); s.add(*core); s.add(z3.Not(g))
            t = time.time(); r = s.check()
            print("path", n, "qfi:", r, round(time.time() - t, 2), "core", len(core), "inst", len(inst))
            if r != z3.unsat and "-g" in sys.argv:
                print("GOAL", g)
            if r != z3.unsat and "-s" in sys.argv and z3.is_and(g):
                for part in VV._flatten([g]):
                    s2 = z3.Solver(); s2.set(timeout=4000); s2.add(*core); s2.add(z3.Not(part))
                    t = time.time(); r2 = s2.check()
                    print("    part", r2, round(time.time() - t, 2), str(part)[:160].replace("\n", " "))
            if r == z3.sat and "-m" in sys.argv:
                m = s.model()
                for d in m.decls():
                    if d.arity() == 0 and d.range().kind() in (z3.Z3_REAL_SORT, z3.Z3_INT_SORT, z3.Z3_BOOL_SORT):
                        print("   ", d.name(), "=", m[d])


V._solve = solve
r = V.verify(q)
if r["error"]:
    print(r["error"])
