"""Contracts for measured.Dimension (C01, C02, C03)."""
import z3
from pyvc.sorts import *  # noqa
from pyvc.verify import Contract
from pyvc.ops import pymod, pydiv
from .model import *  # noqa

CONTRACTS = {}


def contract(cls):
    CONTRACTS[cls.qual] = cls()
    return cls


def wf_dim(c, d):
    return z3.And(c.alive(d), init(c, d))


def result_is_dim(c, r):
    return z3.And(c.alive(r), init(c, r))


def pointwise(c, r, fn):
    i = z3.Int("i!pw")
    return z3.ForAll([i], z3.Implies(z3.And(i >= 0, i < NDIM), dexp(c, r, i) == fn(i)))


class _DimOp(Contract):
    props = ("C01", "C02", "C03")
    inv = ("I_D",)
    modifies = ("new:Dimension", "Dimension._known")
    ret = T_DIM

    def requires(self, c, a):
        yield "wf-self", wf_dim(c, a.self)
        if hasattr(a, "other") and isinstance(a.other, VObj):
            yield "wf-other", wf_dim(c, a.other)

    def frame_post(self, c):
        yield "table-grows", same_table_grows(c, "Dimension._known")


@contract
class DimMultiply(_DimOp):
    qual = "measured.Dimension._multiply"

    def ensures(self, c, a, r):
        yield "is-dimension", result_is_dim(c, r)
        yield "exponents-add", pointwise(c, r, lambda i: dexp(c.old, a.self, i) + dexp(c.old, a.other, i))
        yield from self.frame_post(c)


@contract
class DimDivide(_DimOp):
    qual = "measured.Dimension._divide"

    def ensures(self, c, a, r):
        yield "is-dimension", result_is_dim(c, r)
        yield "exponents-sub", pointwise(c, r, lambda i: dexp(c.old, a.self, i) - dexp(c.old, a.other, i))
        yield from self.frame_post(c)


class _DimBin(_DimOp):
    """__mul__/__truediv__: NotImplemented for non-dimensions, else the memoised helper."""
    types = {"other": [T_DIM, T_UNIT, ("int",), ("other",)]}
    sign = 1

    def ret(self, a):
        return T_DIM if isinstance(a.other, VObj) and a.other.cls == "Dimension" else ("notimpl",)

    def requires(self, c, a):
        yield "wf-self", wf_dim(c, a.self)
        if isinstance(a.other, VObj) and a.other.cls == "Dimension":
            yield "wf-other", wf_dim(c, a.other)

    def ensures(self, c, a, r):
        if isinstance(a.other, VObj) and a.other.cls == "Dimension":
            if not isinstance(r, VObj):
                yield "returns-dimension", z3.BoolVal(False)
                return
            yield "is-dimension", result_is_dim(c, r)
            yield "exponents", pointwise(c, r, lambda i: dexp(c.old, a.self, i) + self.sign * dexp(c.old, a.other, i))
            yield from self.frame_post(c)
        else:
            yield "not-implemented", z3.BoolVal(isinstance(r, VNotImpl))
            yield "table-unchanged", table_unchanged(c, "Dimension._known")


@contract
class DimMul(_DimBin):
    qual = "measured.Dimension.__mul__"


@contract
class DimTruediv(_DimBin):
    qual = "measured.Dimension.__truediv__"
    sign = -1


@contract
class DimPow(_DimOp):
    qual = "measured.Dimension.__pow__"
    types = {"power": [("int",), ("float",), ("other",)]}

    def ret(self, a):
        return T_DIM if isinstance(a.power, VInt) else ("notimpl",)

    def ensures(self, c, a, r):
        if isinstance(a.power, VInt):
            if not isinstance(r, VObj):
                yield "returns-dimension", z3.BoolVal(False)
                return
            yield "is-dimension", result_is_dim(c, r)
            yield "exponents-scale", pointwise(c, r, lambda i: dexp(c.old, a.self, i) * a.power.z)
            yield from self.frame_post(c)
        else:
            yield "not-implemented", z3.BoolVal(isinstance(r, VNotImpl))


@contract
class DimRoot(_DimOp):
    qual = "measured.Dimension.root"
    types = {"degree": [("int",)]}

    def raises(self, c, a):
        i = z3.Int("i!rt")
        n = a.degree.z
        yield ("FractionalDimensionError",
               z3.And(n != 0, z3.Exists([i], z3.And(i >= 0, i < NDIM, pymod(dexp(c, a.self, i), n) != 0))), "indivisible")

    def ensures(self, c, a, r):
        n = a.degree.z
        yield "is-dimension", result_is_dim(c, r)
        yield "degree-zero-number", z3.Implies(n == 0, r.ref == Number.ref)
        yield "exponents-divide", z3.Implies(n != 0, pointwise_rel(c, r, lambda i, e: e * n == dexp(c.old, a.self, i)))
        yield "exponents-floor", z3.Implies(n != 0, pointwise_rel(c, r, lambda i, e: e == pydiv(dexp(c.old, a.self, i), n)))
        yield from self.frame_post(c)


def pointwise_rel(c, r, rel):
    i = z3.Int("i!pw")
    return z3.ForAll([i], z3.Implies(z3.And(i >= 0, i < NDIM), rel(i, dexp(c, r, i))))


@contract
class DimAsRatio(_DimOp):
    qual = "measured.Dimension.as_ratio"
    ret = ("tuple", [T_DIM, T_DIM])

    def ensures(self, c, a, r):
        num, den = r.items
        yield "is-dimension", z3.And(result_is_dim(c, num), result_is_dim(c, den))
        yield "numerator", pointwise(c, num, lambda i: z3.If(dexp(c.old, a.self, i) >= 0, dexp(c.old, a.self, i), 0))
        yield "denominator", pointwise(c, den, lambda i: z3.If(dexp(c.old, a.self, i) < 0, -dexp(c.old, a.self, i), 0))
        yield from self.frame_post(c)
