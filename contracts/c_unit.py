"""Contracts for measured.Unit (C01, C02, C03, C11)."""
import z3
from pyvc.ops import Unsupported
from pyvc.sorts import *  # noqa
from pyvc.verify import Contract
from pyvc.ops import pymod, pydiv
from .model import *  # noqa
from .c_prefix import wf_pfx, pfx_binop_post, bases_ok, is_canon
from .c_dimension import wf_dim, pointwise

CONTRACTS = {}
U = Ref("Unit")


def contract(cls):
    CONTRACTS[cls.qual] = cls()
    return cls


def live(c, u):
    return z3.And(c.alive(u), init(c, u))


def wf_unit(c, u):
    return z3.And(live(c, u), wf_unit_at(c, u.ref), bases_ok(c, VObj("Prefix", c.f(u, "prefix"))))


def c01_pre(c, dimension, factors):
    i = z3.Int("i!c01")
    return z3.ForAll([i], z3.Implies(z3.And(i >= 0, i < NDIM), dexp(c, dimension, i) == dimOf(factors.val, i)))


def as_vmap(c, v):
    from pyvc import builtins as Bi
    if isinstance(v, VMap):
        return v
    if isinstance(v, VLoc):
        m = Bi.as_map(c.eng, v, c.st)
        return None if m is None else VMap(*m)
    return None


@contract
class UnitCtor(Contract):
    """Unit(prefix, factors, dimension) -- every constructor call site in the library.
    The C01 table invariant is the precondition `C01-dimension-is-fold`."""
    qual = "measured.Unit"
    ctor = True
    props = ("C01", "C02", "C15", "C17", "C20")
    inv = ("I_D", "I_P", "I_U")
    modifies = ("new:Unit", "Unit._known")
    types = {"prefix": [T_PFX], "factors": [T_FMAP, ("emptydict",)], "dimension": [T_DIM], "name": [("none",)], "symbol": [("none",)]}
    ret = T_UNIT

    def applicable(self, a):
        return isinstance(a.name, VNone) and isinstance(a.symbol, VNone)

    def requires(self, c, a):
        yield "wf-prefix", wf_pfx(c, a.prefix)
        yield "wf-dimension", wf_dim(c, a.dimension)
        m = as_vmap(c, a.factors)
        if m is None:
            yield "base-unit-has-identity-prefix", a.prefix.ref == IdentityPrefix.ref
        else:
            for nm, f in NF(c, m):
                yield "NF-" + nm, f
            yield "C01-dimension-is-fold", c01_pre(c, a.dimension, m)

    def ghost(self, c, a, r):
        m = as_vmap(c.old, a.factors)
        if m is None:
            i = z3.Int("i!gh")
            yield z3.Implies(z3.Not(c.old.alive(r)), z3.ForAll([i], bdexp(r.ref, i) == dexp(c, a.dimension, i)))

    def ensures(self, c, a, r):
        o = c.old
        m = as_vmap(o, a.factors)
        yield "is-unit", live(c, r)
        yield "prefix", c.f(r, "prefix") == a.prefix.ref
        if m is None:
            yield "factors-self", c.f(r, "factors") == single_map(r.ref)
            yield "fresh", z3.Not(o.alive(r))
        else:
            yield "factors", c.f(r, "factors") == fmap_z(m.dom, m.val)
            T = o.g("Unit._known")
            k = ukey(a.prefix.ref, fmap_z(m.dom, m.val))
            yield "interned", z3.If(z3.Select(T.dom, k), r.ref == z3.Select(T.val, k), z3.Not(o.alive(r)))
        yield "dimension-fresh", z3.Implies(z3.Not(o.alive(r)), c.f(r, "dimension") == a.dimension.ref)
        yield "dimension-exponents", pointwise(c, VObj("Dimension", c.f(r, "dimension")), lambda i: dexp(c, a.dimension, i))
        yield "dimension-identical", c.f(r, "dimension") == a.dimension.ref
        yield "table-grows", same_table_grows(c, "Unit._known")


def simplified(S):
    """_simplify as a term: the map with value array S (One already zeroed) restricted to its
    non-zero entries, or {One: 1} when nothing is left"""
    b = z3.Const("b!sp", U)
    nz = z3.Lambda([b], z3.Select(S, b) != 0)
    return z3.If(S == z3.K(U, z3.IntVal(0)), single_map(One.ref), fmap_z(nz, S))


def merged_post(c, o, r, self, other, sign):
    """factor map of the result of self*other (sign=1) / self/other (sign=-1), after
    _simplify: One and zero exponents dropped, {One: 1} if nothing is left"""
    b = z3.Const("b!mp", U)
    S = z3.Lambda([b], z3.If(b == One.ref, z3.IntVal(0), facv(o, self, b) + sign * facv(o, other, b)))
    yield "factors-merged", c.f(r, "factors") == simplified(S)


class _UnitBin(Contract):
    props = ("C01", "C02", "C03", "C11")
    inv = ("I_D", "I_P", "I_U")
    modifies = ("new:Unit", "Unit._known", "new:Prefix", "Prefix._known", "new:Dimension", "Dimension._known")
    ret = T_UNIT
    sign = 1

    def requires(self, c, a):
        yield "wf-self", wf_unit(c, a.self)
        yield "wf-other", wf_unit(c, a.other)

    def ensures(self, c, a, r):
        o = c.old
        yield "is-unit", live(c, r)
        for nm, f in pfx_binop_post(c, o, VObj("Prefix", c.f(r, "prefix")), VObj("Prefix", o.f(a.self, "prefix")),
                                    VObj("Prefix", o.f(a.other, "prefix")), self.sign):
            yield "prefix-" + nm, f
        yield from merged_post(c, o, r, a.self, a.other, self.sign)
        dr, ds, do = (VObj("Dimension", x) for x in (c.f(r, "dimension"), o.f(a.self, "dimension"), o.f(a.other, "dimension")))
        yield "dimension", pointwise(c, dr, lambda i: dexp(o, ds, i) + self.sign * dexp(o, do, i))
        for t in ("Unit._known", "Prefix._known", "Dimension._known"):
            yield "table-grows-" + t, same_table_grows(c, t)


@contract
class UnitMultiply(_UnitBin):
    qual = "measured.Unit._multiply"


@contract
class UnitDivide(_UnitBin):
    qual = "measured.Unit._divide"
    sign = -1


@contract
class UnitPow(Contract):
    qual = "measured.Unit.__pow__"
    props = ("C01", "C02", "C03", "C11")
    inv = ("I_D", "I_P", "I_U")
    modifies = _UnitBin.modifies
    types = {"power": [("int",), ("float",), ("other",)]}

    def ret(self, a):
        return T_UNIT if isinstance(a.power, VInt) else ("notimpl",)

    def requires(self, c, a):
        yield "wf-self", wf_unit(c, a.self)

    def ensures(self, c, a, r):
        o = c.old
        if not isinstance(a.power, VInt):
            yield "not-implemented", z3.BoolVal(isinstance(r, VNotImpl))
            return
        if not isinstance(r, VObj):
            yield "returns-unit", z3.BoolVal(False)
            return
        n = a.power.z
        p_old = VObj("Prefix", o.f(a.self, "prefix"))
        yield "is-unit", live(c, r)
        yield "prefix-power", is_canon(c, VObj("Prefix", c.f(r, "prefix")), pbase(o, p_old), pexp(o, p_old) * z3.ToReal(n))
        b = z3.Const("b!pw", U)
        S = z3.Lambda([b], z3.If(b == One.ref, z3.IntVal(0), facv(o, a.self, b) * n))
        yield "factors-scaled", c.f(r, "factors") == simplified(S)
        dr, ds = VObj("Dimension", c.f(r, "dimension")), VObj("Dimension", o.f(a.self, "dimension"))
        yield "dimension", pointwise(c, dr, lambda i: dexp(o, ds, i) * n)
        for t in ("Unit._known", "Prefix._known", "Dimension._known"):
            yield "table-grows-" + t, same_table_grows(c, t)


@contract
class UnitRoot(Contract):
    qual = "measured.Unit.root"
    props = ("C01", "C02", "C03", "C11")
    inv = ("I_D", "I_P", "I_U")
    modifies = _UnitBin.modifies
    types = {"degree": [("int",)]}
    ret = T_UNIT

    def requires(self, c, a):
        yield "wf-self", wf_unit(c, a.self)

    def raises(self, c, a):
        n = a.degree.z
        b = z3.Const("b!rt", U)
        i = z3.Int("i!rt")
        p = VObj("Prefix", c.f(a.self, "prefix"))
        q = pexp(c, p) / z3.ToReal(n)
        d = VObj("Dimension", c.f(a.self, "dimension"))
        yield ("FractionalDimensionError",
               z3.And(n != 0, z3.Or(z3.Exists([b], z3.And(b != One.ref, pymod(facv(c, a.self, b), n) != 0)),
                                    z3.ToReal(z3.ToInt(q)) != q,
                                    z3.Exists([i], z3.And(i >= 0, i < NDIM, pymod(dexp(c, d, i), n) != 0)))), "indivisible")

    def ensures(self, c, a, r):
        o = c.old
        n = a.degree.z
        yield "degree-zero", z3.Implies(n == 0, r.ref == One.ref)
        b = z3.Const("b!rt", U)
        p_old = VObj("Prefix", o.f(a.self, "prefix"))
        p_new = VObj("Prefix", c.f(r, "prefix"))
        yield "is-unit", live(c, r)
        yield "factors-root", z3.Implies(n != 0, z3.ForAll([b], z3.Implies(b != One.ref, facv(c, r, b) * n == facv(o, a.self, b))))
        yield "prefix-root", z3.Implies(n != 0, pexp(c, p_new) * z3.ToReal(n) == pexp(o, p_old))
        dr, ds = VObj("Dimension", c.f(r, "dimension")), VObj("Dimension", o.f(a.self, "dimension"))
        from .c_dimension import pointwise_rel
        yield "dimension", z3.Implies(n != 0, pointwise_rel(c, dr, lambda i, e: e * n == dexp(o, ds, i)))
        for t in ("Unit._known", "Prefix._known", "Dimension._known"):
            yield "table-grows-" + t, same_table_grows(c, t)


@contract
class UnitAsRatio(Contract):
    qual = "measured.Unit.as_ratio"
    props = ("C01", "C02")
    inv = ("I_D", "I_P", "I_U")
    modifies = _UnitBin.modifies
    ret = ("tuple", [T_UNIT, T_UNIT])

    def requires(self, c, a):
        yield "wf-self", wf_unit(c, a.self)

    def ensures(self, c, a, r):
        o = c.old
        num, den = r.items
        b = z3.Const("b!ar", U)
        f = lambda x: facv(o, a.self, x)
        yield "is-unit", z3.And(live(c, num), live(c, den))
        anypos = z3.Exists([b], z3.And(z3.Select(fac(o, a.self).dom, b), f(b) >= 0))
        anyneg = z3.Exists([b], f(b) < 0)
        yield "numerator", z3.If(anypos, z3.ForAll([b], facv(c, num, b) == z3.If(f(b) >= 0, f(b), 0)),
                                 c.f(num, "factors") == single_map(One.ref))
        yield "denominator", z3.If(anyneg, z3.ForAll([b], facv(c, den, b) == z3.If(f(b) < 0, -f(b), 0)),
                                   c.f(den, "factors") == single_map(One.ref))
        yield "numerator-prefix", c.f(num, "prefix") == o.f(a.self, "prefix")
        yield "denominator-prefix", c.f(den, "prefix") == IdentityPrefix.ref
        for t in ("Unit._known", "Prefix._known", "Dimension._known"):
            yield "table-grows-" + t, same_table_grows(c, t)


class Loop:
    inv_names = ()
    modifies = ()

    def inv(self, c, e, V):
        return []

    def lemmas(self, c, e, V, k):
        """valid lemma-schema instances (hypothesis embedded) assumed in the loop step"""
        return []


LOOPS = {}


def restrict(m, V):
    b = z3.Const("b!re", U)
    return z3.Lambda([b], z3.If(z3.Select(V, b), z3.Select(m.val, b), z3.IntVal(0)))


@contract
class UnitDimensionOf(Contract):
    """Unit._dimension_of(factors): the product of the factors' dimensions (the C01 fold)."""
    qual = "measured.Unit._dimension_of"
    props = ("C01",)
    inv = ("I_D", "I_P", "I_U")
    modifies = ("new:Dimension", "Dimension._known")
    types = {"factors": [T_FMAP]}
    ret = T_DIM

    def requires(self, c, a):
        m = as_vmap(c, a.factors)
        for nm, f in NF(c, m):
            yield "NF-" + nm, f

    def ensures(self, c, a, r):
        m = as_vmap(c.old, a.factors)
        yield "is-dimension", wf_dim(c, r)
        yield "C01-fold", c01_pre(c, r, m)
        yield "table-grows", same_table_grows(c, "Dimension._known")


class DimensionOfLoop(Loop):
    inv_names = ("I_D", "I_P", "I_U")
    modifies = ("new:Dimension", "Dimension._known")

    def inv(self, c, e, V):
        m = as_vmap(c, e.factors)
        i = z3.Int("i!lp")
        carried = c.old.loop.carried  # the accumulated dimension, whatever the local is called
        if len(carried) != 1:
            raise Unsupported("_dimension_of loop: expected exactly one carried variable, found %s" % (carried,))
        acc = getattr(e, carried[0])
        yield "dimension-live", wf_dim(c, acc)
        yield "partial-fold", z3.ForAll([i], z3.Implies(z3.And(i >= 0, i < NDIM), dexp(c, acc, i) == dimOf(restrict(m, V), i)))
        yield "table-grows", same_table_grows(c, "Dimension._known")
        for nm, f in NF(c, m):
            yield "NF-" + nm, f


    def lemmas(self, c, e, V, k):
        # S_update: two maps that differ at most at k
        m = as_vmap(c, e.factors)
        R, R2 = restrict(m, V), restrict(m, z3.Store(V, k, z3.BoolVal(True)))
        b, i = z3.Const("b!su", U), z3.Int("i!su")
        yield z3.Implies(z3.ForAll([b], z3.Implies(b != k, z3.Select(R2, b) == z3.Select(R, b))),
                         z3.ForAll([i], dimOf(R2, i) == dimOf(R, i) + (z3.Select(R2, k) - z3.Select(R, k)) * bdexp(k, i)))
        i2 = z3.Int("i!ss")
        yield z3.ForAll([i2], dimOf(z3.Store(z3.K(U, z3.IntVal(0)), k, z3.IntVal(1)), i2) == bdexp(k, i2))


LOOPS[("measured.Unit._dimension_of", 0)] = DimensionOfLoop()


class _UnitDispatch(Contract):
    """Unit.__mul__ / __truediv__: dispatch on the operand type."""
    props = ("C01", "C02", "C03", "C11")
    inv = ("I_D", "I_P", "I_U")
    modifies = _UnitBin.modifies
    sign = 1

    def ret(self, a):
        if isinstance(a.other, VObj) and a.other.cls == "Unit":
            return T_UNIT
        if self.sign == 1 and (isinstance(a.other, (VInt, VNum))):
            return T_QTY
        return ("notimpl",)

    def requires(self, c, a):
        yield "wf-self", wf_unit(c, a.self)
        if isinstance(a.other, VObj) and a.other.cls == "Unit":
            yield "wf-other", wf_unit(c, a.other)

    def ensures(self, c, a, r):
        o = c.old
        if isinstance(a.other, VObj) and a.other.cls == "Unit":
            if not (isinstance(r, VObj) and r.cls == "Unit"):
                yield "returns-unit", z3.BoolVal(False)
                return
            yield from _UnitBin.ensures(self, c, a, r)
        elif self.sign == 1 and isinstance(a.other, (VInt, VNum)):
            if not (isinstance(r, VObj) and r.cls == "Quantity"):
                yield "returns-quantity", z3.BoolVal(False)
                return
            from pyvc.ops import to_num
            yield "quantity-fresh", z3.Not(o.alive(r))
            yield "quantity-unit", c.f(r, "unit") == a.self.ref
            yield "quantity-magnitude", c.f(r, "magnitude") == to_num(a.other).z
        else:
            yield "not-implemented", z3.BoolVal(isinstance(r, VNotImpl))


@contract
class UnitMul(_UnitDispatch):
    qual = "measured.Unit.__mul__"
    types = {"other": [T_UNIT, ("int",), ("float",), ("dec",), T_PFX, ("other",)]}
    modifies = _UnitBin.modifies + ("new:Quantity",)


@contract
class UnitTruediv(_UnitDispatch):
    qual = "measured.Unit.__truediv__"
    sign = -1
    types = {"other": [T_UNIT, ("int",), ("other",)]}


@contract
class UnitQuantify(Contract):
    """Unit.quantify: prefix factor times the unprefixed unit (C11)."""
    qual = "measured.Unit.quantify"
    props = ("C01", "C11")
    inv = ("I_D", "I_P", "I_U")
    modifies = _UnitBin.modifies + ("new:Quantity",)
    ret = T_QTY

    def requires(self, c, a):
        yield "wf-self", wf_unit(c, a.self)

    def ensures(self, c, a, r):
        from .c_prefix import pval
        o = c.old
        ru = VObj("Unit", c.f(r, "unit"))
        yield "fresh-quantity", z3.And(c.alive(r), z3.Not(o.alive(r)))
        yield "unit-live", live(c, ru)
        yield "unit-unprefixed", c.f(ru, "prefix") == IdentityPrefix.ref
        yield "unit-factors", c.f(ru, "factors") == o.f(a.self, "factors")
        yield "unit-dimension", pointwise(c, VObj("Dimension", c.f(ru, "dimension")), lambda i: dexp(o, VObj("Dimension", o.f(a.self, "dimension")), i))
        yield "unit-dimension-identical", c.f(ru, "dimension") == o.f(a.self, "dimension")
        yield "magnitude-is-prefix-value", Num.nval(c.f(r, "magnitude")) == pval(o, VObj("Prefix", o.f(a.self, "prefix")))
        yield "magnitude-decimal-only-if-exponent-is", z3.Implies(
            Num.nkind(o.f(VObj("Prefix", o.f(a.self, "prefix")), "exponent")) != K_DEC, Num.nkind(c.f(r, "magnitude")) != K_DEC)
        for t in ("Unit._known", "Prefix._known", "Dimension._known"):
            yield "table-grows-" + t, same_table_grows(c, t)
