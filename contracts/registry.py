from .model import SCHEMA, Spec
from . import c_dimension

CONTRACTS = {}
for _m in (c_dimension,):
    CONTRACTS.update(_m.CONTRACTS)
SPEC = Spec()
