from .model import SCHEMA, Spec
from . import c_dimension, c_prefix, c_unit, c_quantity, c_registry, c_lemmas, c_conversions, c_measurement, c_level

CONTRACTS = {}
for _m in (c_dimension, c_prefix, c_unit, c_quantity, c_registry, c_lemmas, c_conversions, c_measurement, c_level):
    CONTRACTS.update(_m.CONTRACTS)
SPEC = Spec()

SPEC.loops = {}
for _m in (c_unit, c_conversions):
    SPEC.loops.update(getattr(_m, "LOOPS", {}))

SIDE_MODULES = {"lemmas": c_lemmas.SRC}
