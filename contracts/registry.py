from .model import SCHEMA, Spec
from . import c_dimension, c_prefix

CONTRACTS = {}
for _m in (c_dimension, c_prefix):
    CONTRACTS.update(_m.CONTRACTS)
SPEC = Spec()
