"""Lemma-schema instances added to an obligation before it is sent to the solver.
Every schema is a theorem about finite sums (proved in /verif/lemmas/Fold.lean); instances
are sound for any arguments, so over-generating them can never make a false goal provable."""
import z3
from pyvc.sorts import *  # noqa


def instances(ob):
    return []
