"""Lemma-schema instances added to an obligation before it is sent to the solver.

Every schema is a theorem about finite sums (statement and proof: /verif/lemmas/Fold.lean).
Instances are implications whose hypothesis the solver has to establish itself, so they are
sound for ANY choice of arguments: over-generating them cannot make a false goal provable.

  S_lin2(F,G,H;a,c): (forall b. H b = a*F b + c*G b  \/  forall j. bd b j = 0)
                      -> forall i. dimOf H i = a * dimOf F i + c * dimOf G i
  S_lin1(F,H;a):     (forall b. H b = a * F b  \/  forall j. bd b j = 0) -> forall i. dimOf H i = a * dimOf F i
                      (and, for a != 0, floor(dimOf H i / a) = dimOf F i)
  S_update(A,B,u):   (forall b. b != u -> A b = B b) -> forall i. dimOf A i = dimOf B i + (A u - B u) * bd u i
  S_single(u):       dimOf {u: 1} i = bd u i          S_zero: dimOf {} i = 0
  S_supp1(F,u):      (forall b. b != u -> F b = 0) -> forall i. dimOf F i = F u * bd u i
where dimOf F i = sum_b F b * bd b i over the (finite) support of F.
"""
import itertools
import z3
from pyvc.sorts import *  # noqa
from .model import dimOf, bdexp
from pyvc.ops import pydiv

UNIT = Ref("Unit")
ARR = z3.ArraySort(UNIT, I)


def _free(t, depth=0, memo=None):
    """does term t contain a de Bruijn variable that is free in t?"""
    if z3.is_var(t):
        return z3.get_var_index(t) >= depth
    if z3.is_quantifier(t):
        return _free(t.body(), depth + t.num_vars())
    return any(_free(ch, depth) for ch in t.children())


def _walk(fs):
    seen = set()
    stack = list(fs)
    while stack:
        x = stack.pop()
        i = x.get_id()
        if i in seen:
            continue
        seen.add(i)
        yield x
        if z3.is_quantifier(x):
            stack.append(x.body())
        else:
            stack.extend(x.children())


_FCACHE = {}


def _collect_formula(f):
    k = f.get_id()
    hit = _FCACHE.get(k)
    if hit is not None:
        return hit[0]
    arrays, units, ints = {}, {}, {}
    for x in _walk([f]):
        if z3.is_app(x):
            d = x.decl()
            if x.num_args() == 2 and d.name() == "dimOf":
                a = x.arg(0)
                if not _free(a):
                    arrays[a.get_id()] = a
            elif x.num_args() == 0 and d.kind() == z3.Z3_OP_UNINTERPRETED:
                if x.sort() == UNIT:
                    units[x.get_id()] = x
                elif x.sort() == I and not d.name().startswith(("i!", "k!", "NDIM")):
                    ints[x.get_id()] = x
    res = (arrays, units, ints)
    _FCACHE[k] = (res, f)
    return res


def collect(ob):
    arrays, units, ints = {}, {}, {}
    for f in list(ob.pc) + [ob.goal] + list(ob.axioms):
        a, u, i = _collect_formula(f)
        arrays.update(a)
        units.update(u)
        ints.update(i)
    return list(arrays.values()), list(units.values()), list(ints.values())


_sk = itertools.count()


def instances(ob, global_axioms=()):
    """Unconditional instances: S_zero and S_single at the unit constants of the query."""
    _, units, _ = collect(ob)
    i = z3.Int("i!L")
    out = [z3.ForAll([i], dimOf(z3.K(UNIT, z3.IntVal(0)), i) == 0)]
    for u in units[:10]:
        single = z3.Store(z3.K(UNIT, z3.IntVal(0)), u, z3.IntVal(1))
        out.append(z3.ForAll([i], dimOf(single, i) == bdexp(u, i)))
    return out


# ---------------------------------------------------------------------------------------------
# targeted instances, attached when the executor builds a map from another map


def _valid_at_fresh(eng, state, P, with_bd=True):
    """prove `forall b. P(b) or forall j. bd(b,j)=0` on this path: P at a fresh unit b0
    (and fresh index j0) from the quantifier-free path condition plus the single-variable
    universal hypotheses instantiated at b0 / j0.  Quantifier-free query: ms either way."""
    from pyvc.verify import preinstantiate, _flatten
    n = next(_sk)
    b0 = z3.Const("b!sk%d" % n, UNIT)
    j0 = z3.Int("j!sk%d" % n)
    hyps = list(eng.global_axioms) + list(state.pc)
    from pyvc.verify import _ground_consts
    uc = [c for c in _ground_consts(hyps).get("Unit", {}).values() if "!sk" not in c.decl().name()][:6]
    inst = preinstantiate(hyps, None, rounds=2, terms={"Unit": [b0] + uc, "Int": [j0]})
    s = z3.Solver()
    s.set(timeout=1500)
    for f in _flatten(hyps) + _flatten(inst):
        if not _has_quant(f):
            s.add(f)
    for f in eng.global_axioms:
        if z3.is_quantifier(f) and f.num_vars() == 2:
            s.add(f)  # div/mod axiom (pattern-instantiated)
    s.add(z3.Not(P(b0)))
    if with_bd:
        s.add(bdexp(b0, j0) != 0)
    return s.check() == z3.unsat


def _has_quant(f):
    for x in _walk([f]):
        if z3.is_quantifier(x):
            return True
    return False


def _int_consts(e):
    out = {}
    for x in _walk([e]):
        if z3.is_app(x) and x.num_args() == 0 and x.sort() == I and x.decl().kind() == z3.Z3_OP_UNINTERPRETED:
            out[x.get_id()] = x
    return list(out.values())


def map_built(eng, state, kind, d):
    """Hook called by the executor when it builds a Unit->int map from other maps.  Adds
    to the path the fold-lemma conclusions whose hypotheses hold by construction (proved by
    a small query each).  Schemas: /verif/lemmas/Fold.lean."""
    if d["kt"] != ("obj", "Unit"):
        return
    i = z3.Int("i!L")
    sel = z3.Select
    H = d["h_val"]
    if kind == "acc":
        sp = d["s_space"]
        S = getattr(sp, "src_val", None)
        if S is None or not z3.eq(z3.simplify(d["f"]), z3.simplify(sel(S, d["key"]))):
            return
        A, Adom, Sdom, sg = d["a_val"], d["a_dom"], d["s_dom"], d["sign"]
        # H b = (A b if b in A else 0) +- (S b if b in S else 0): exact when A and S are normalised
        ok = _valid_at_fresh(eng, state, lambda b: sel(H, b) == sel(A, b) + sg * sel(S, b))
        if ok:
            state.assume(z3.ForAll([i], dimOf(H, i) == dimOf(A, i) + sg * dimOf(S, i)))
            state.notes.append("S_lin2 attached (R-acc)")
        return
    if kind == "comp":
        if d.get("vt") != ("int",):
            return
        S = d.get("src")
        if S is None:
            return
        for a in [z3.IntVal(1), z3.IntVal(-1)] + _int_consts(d["g"])[:3]:
            if _valid_at_fresh(eng, state, lambda b: sel(H, b) == a * sel(S, b)):
                concl = dimOf(H, i) == a * dimOf(S, i)
                state.assume(z3.ForAll([i], concl))
                state.notes.append("S_lin1 attached (comprehension, a=%s)" % a)
                return
        for n in _int_consts(d["g"])[:3]:
            if _valid_at_fresh(eng, state, lambda b: sel(S, b) == n * sel(H, b)):
                state.assume(z3.ForAll([i], z3.And(dimOf(S, i) == n * dimOf(H, i),
                                                   z3.Implies(n != 0, pydiv(dimOf(S, i), n) == dimOf(H, i)))))
                state.notes.append("S_lin1 attached (comprehension, divided by %s)" % n)
                return
