"""Contracts for names and symbols (C19): Unit.alias / define / derive, named prefixes,
Dimension.derive.  Invariant I_R: a name (symbol) is bound to a unit exactly when the unit
reports it, so lookups return the object and no name is bound to two objects."""
import z3
from pyvc.sorts import *  # noqa
from pyvc.verify import Contract
from .model import *  # noqa
from .c_unit import live, wf_unit, U
from .c_dimension import wf_dim

CONTRACTS = {}


def contract(cls):
    CONTRACTS[cls.qual] = cls()
    return cls


memb = z3.Function("memb", StrSeq, S, z3.BoolSort())  # ghost: string n occurs in the tuple of strings


def has(seq, s):
    return memb(seq, s)


def memb_axioms():
    """defining axioms of tuple membership for the two ways the code builds name tuples"""
    s, x, n = z3.Const("s!mb", StrSeq), z3.String("x!mb"), z3.String("n!mb")
    return [z3.ForAll([n], z3.Not(memb(z3.Empty(StrSeq), n))),
            z3.ForAll([x, n], memb(z3.Unit(x), n) == (n == x)),
            z3.ForAll([s, x, n], memb(z3.Concat(s, z3.Unit(x)), n) == z3.Or(memb(s, n), n == x),
                      patterns=[memb(z3.Concat(s, z3.Unit(x)), n)])]


def I_R(c):
    n = z3.String("n!IR")
    u = z3.Const("u!IR", U)
    for reg, fld in (("Unit._by_name", "names"), ("Unit._by_symbol", "symbols")):
        T = c.g(reg)
        # allocated units (an object under construction already carries its name tuples
        # when alias() runs inside __init__)
        lv = lambda r: c.alivez("Unit", r)
        yield "I_R.%s-reported" % fld, z3.ForAll([n], z3.Implies(
            z3.Select(T.dom, n), z3.And(lv(z3.Select(T.val, n)), has(c.fz("Unit", z3.Select(T.val, n), fld), n))))
        yield "I_R.%s-bound" % fld, z3.ForAll([u, n], z3.Implies(
            z3.And(lv(u), has(c.fz("Unit", u, fld), n)), z3.And(z3.Select(T.dom, n), z3.Select(T.val, n) == u)))


INVARIANTS["I_R"] = I_R


def regs_unchanged(c, except_unit=None):
    o = c.old
    for reg in ("Unit._by_name", "Unit._by_symbol", "Unit._known"):
        yield reg + "-unchanged", table_unchanged(c, reg)
    u = z3.Const("u!ru", U)
    yield "names-unchanged", z3.ForAll([u], z3.Implies(o.alivez("Unit", u), z3.And(
        c.fz("Unit", u, "names") == o.fz("Unit", u, "names"), c.fz("Unit", u, "symbols") == o.fz("Unit", u, "symbols"))))


def truthy(v):
    """z3 Bool: Python truthiness of an Optional[str] argument value"""
    if isinstance(v, VNone):
        return z3.BoolVal(False)
    return z3.Length(v.z) > 0


def bound_to_other(c, reg, v, self_ref):
    T = c.g(reg)
    return z3.And(z3.Select(T.dom, v.z), z3.Select(T.val, v.z) != self_ref)


@contract
class UnitAlias(Contract):
    qual = "measured.Unit.alias"
    props = ("C19", "C17")
    inv = ("I_R",)
    modifies = ("Unit._by_name", "Unit._by_symbol", "Unit.names", "Unit.symbols")
    types = {"name": [("none",), ("str",)], "symbol": [("none",), ("str",)]}
    ret = ("none",)

    def applicable(self, a):
        # alias(None, None) (every anonymous construction) is a no-op: execute the body
        return not (isinstance(a.name, VNone) and isinstance(a.symbol, VNone))

    def requires(self, c, a):
        yield "allocated", c.alive(a.self)

    def _conflict(self, c, a):
        conds = []
        if not isinstance(a.name, VNone):
            conds.append(z3.And(truthy(a.name), bound_to_other(c, "Unit._by_name", a.name, a.self.ref)))
        if not isinstance(a.symbol, VNone):
            conds.append(z3.And(truthy(a.symbol), z3.Or(bound_to_other(c, "Unit._by_symbol", a.symbol, a.self.ref),
                                                       z3.Contains(a.symbol.z, z3.StringVal(" ")))))
        return z3.Or(conds) if conds else z3.BoolVal(False)

    def raises(self, c, a):
        yield "ValueError", self._conflict(c, a), "conflict"

    def exc_ensures(self, c, a, exc):
        # a failing call changes nothing
        yield from regs_unchanged(c)

    def ensures(self, c, a, r):
        o = c.old
        for arg, reg, fld in ((a.name, "Unit._by_name", "names"), (a.symbol, "Unit._by_symbol", "symbols")):
            T, T0 = c.g(reg), o.g(reg)
            if isinstance(arg, VNone):
                yield reg + "-unchanged", table_unchanged(c, reg)
                yield fld + "-unchanged", c.f(a.self, fld) == o.f(a.self, fld)
                continue
            t = truthy(arg)
            yield reg + "-bound", z3.Implies(t, z3.And(z3.Select(T.dom, arg.z), z3.Select(T.val, arg.z) == a.self.ref))
            yield fld + "-reported", z3.Implies(t, c.f(a.self, fld) == z3.Concat(o.f(a.self, fld), z3.Unit(arg.z)))
            yield reg + "-others-kept", z3.And(T.dom == z3.If(t, z3.Store(T0.dom, arg.z, z3.BoolVal(True)), T0.dom),
                                               T.val == z3.If(t, z3.Store(T0.val, arg.z, a.self.ref), T0.val))
            yield fld + "-unchanged-if-empty", z3.Implies(z3.Not(t), c.f(a.self, fld) == o.f(a.self, fld))
        u = z3.Const("u!al", U)
        yield "other-units-untouched", z3.ForAll([u], z3.Implies(u != a.self.ref, z3.And(
            c.fz("Unit", u, "names") == o.fz("Unit", u, "names"), c.fz("Unit", u, "symbols") == o.fz("Unit", u, "symbols"))))


@contract
class UnitDefine(Contract):
    """Unit.define(dimension, name, symbol): a fresh named base unit, or ValueError and
    nothing changed."""
    qual = "measured.Unit.define"
    props = ("C19", "C01")
    inv = ("I_D", "I_P", "I_U", "I_R")
    modifies = ("new:Unit", "Unit._known", "Unit._by_name", "Unit._by_symbol", "Unit._base", "Unit.names", "Unit.symbols")
    types = {"name": [("str",)], "symbol": [("str",)]}
    ret = T_UNIT

    def requires(self, c, a):
        yield "wf-dimension", wf_dim(c, a.dimension)
        yield "nonempty-name-and-symbol", z3.And(z3.Length(a.name.z) > 0, z3.Length(a.symbol.z) > 0)

    def raises(self, c, a):
        N, S = c.g("Unit._by_name"), c.g("Unit._by_symbol")
        yield "ValueError", z3.Or(z3.Select(N.dom, a.name.z), z3.Select(S.dom, a.symbol.z),
                                  z3.Contains(a.symbol.z, z3.StringVal(" "))), "duplicate-or-unparsable"

    def exc_ensures(self, c, a, exc):
        yield from regs_unchanged(c)
        yield "Unit._base-unchanged", c.g("Unit._base").dom == c.old.g("Unit._base").dom

    def ghost(self, c, a, r):
        i = z3.Int("i!gh")
        yield z3.Implies(z3.Not(c.old.alive(r)), z3.ForAll([i], bdexp(r.ref, i) == dexp(c, a.dimension, i)))

    def ensures(self, c, a, r):
        o = c.old
        N, S = c.g("Unit._by_name"), c.g("Unit._by_symbol")
        yield "fresh-base-unit", z3.And(z3.Not(o.alive(r)), live(c, r), c.f(r, "factors") == single_map(r.ref),
                                        c.f(r, "prefix") == IdentityPrefix.ref, c.f(r, "dimension") == a.dimension.ref)
        yield "name-bound", z3.And(z3.Select(N.dom, a.name.z), z3.Select(N.val, a.name.z) == r.ref)
        yield "symbol-bound", z3.And(z3.Select(S.dom, a.symbol.z), z3.Select(S.val, a.symbol.z) == r.ref)
        yield "reports-name-and-symbol", z3.And(c.f(r, "names") == z3.Unit(a.name.z), c.f(r, "symbols") == z3.Unit(a.symbol.z))
        yield "in-base-set", z3.Select(c.g("Unit._base").dom, r.ref)
        yield "table-grows", same_table_grows(c, "Unit._known")
        yield "names-grow", z3.And(same_table_grows(c, "Unit._by_name"), same_table_grows(c, "Unit._by_symbol"))
