"""Contracts for measured.Quantity and the Decimal-preserving helpers (C03, C06, C12)."""
import z3
from pyvc.sorts import *  # noqa
from pyvc.verify import Contract
from pyvc.ops import to_num, rpow, rpowr
from .model import *  # noqa
from .c_unit import wf_unit, live, _UnitBin
from .c_unit import CONTRACTS as _UC
from .c_dimension import pointwise, pointwise_rel

CONTRACTS = {}
NUMS = [("int",), ("float",), ("dec",)]


def contract(cls):
    CONTRACTS[cls.qual] = cls()
    return cls


def mag(c, q):
    return c.f(q, "magnitude")


def mkind(c, q):
    return Num.nkind(mag(c, q))


def mval(c, q):
    return Num.nval(mag(c, q))


def qunit(c, q):
    return VObj("Unit", c.f(q, "unit"))


def qdim(c, q):
    return VObj("Dimension", c.f(qunit(c, q), "dimension"))


def wf_qty(c, q):
    return z3.And(c.alive(q), wf_unit(c, qunit(c, q)))


def is_dec(v):
    return to_num(v).kind == K_DEC


def kind_rule(k, *ks):
    """Decimal whenever an operand is (C03)"""
    return z3.Implies(z3.Or([x == K_DEC for x in ks]), k == K_DEC)


class _Helper(Contract):
    """_add/_sub/_mul/_div/_pow: the Decimal lattice (A5): Decimal iff an operand is; no
    TypeError from mixing Decimal with float."""
    props = ("C03",)
    types = {"left": NUMS, "right": NUMS, "base": NUMS, "exponent": NUMS}
    ret = ("num",)
    op = None

    def raises(self, c, a):
        if self.op == "div":
            yield "ZeroDivisionError", to_num(a.right).val == 0, "zero-divisor"

    def ensures(self, c, a, r):
        x, y = (a.left, a.right) if hasattr(a, "left") else (a.base, a.exponent)
        x, y = to_num(x), to_num(y)
        r = to_num(r)
        yield "decimal-iff-operand-is", (r.kind == K_DEC) == z3.Or(x.kind == K_DEC, y.kind == K_DEC)
        if self.op == "add":
            yield "value", r.val == x.val + y.val
        elif self.op == "sub":
            yield "value", r.val == x.val - y.val
        elif self.op == "mul":
            yield "value", r.val == x.val * y.val
        elif self.op == "div":
            yield "value", r.val * y.val == x.val


for _n, _op in (("_add", "add"), ("_sub", "sub"), ("_mul", "mul"), ("_div", "div")):
    contract(type("H" + _n, (_Helper,), {"qual": "measured." + _n, "op": _op}))


class _QBin(Contract):
    """Quantity * / : dimension homomorphism, Decimal preservation, always a Quantity."""
    props = ("C03", "C06")
    inv = ("I_D", "I_P", "I_U")
    modifies = _UnitBin.modifies + ("new:Quantity",)
    types = {"other": [T_QTY, T_UNIT] + NUMS + [("other",)]}
    sign = 1

    def ret(self, a):
        if isinstance(a.other, VObj) and a.other.cls in ("Quantity", "Unit") or isinstance(a.other, (VInt, VNum)):
            return T_QTY
        return ("notimpl",)

    def requires(self, c, a):
        yield "wf-self", wf_qty(c, a.self)
        if isinstance(a.other, VObj) and a.other.cls == "Quantity":
            yield "wf-other", wf_qty(c, a.other)
        if isinstance(a.other, VObj) and a.other.cls == "Unit":
            yield "wf-other", wf_unit(c, a.other)

    def raises(self, c, a):
        if self.sign == -1:
            if isinstance(a.other, VObj) and a.other.cls == "Quantity":
                yield "ZeroDivisionError", mval(c, a.other) == 0, "zero-divisor"
            elif isinstance(a.other, (VInt, VNum)):
                yield "ZeroDivisionError", to_num(a.other).val == 0, "zero-divisor"

    def ensures(self, c, a, r):
        o = c.old
        s = self.sign
        if not (isinstance(a.other, VObj) and a.other.cls in ("Quantity", "Unit") or isinstance(a.other, (VInt, VNum))):
            yield "not-implemented", z3.BoolVal(isinstance(r, VNotImpl))
            return
        if not (isinstance(r, VObj) and r.cls == "Quantity"):
            yield "returns-quantity", z3.BoolVal(False)
            return
        yield "fresh-quantity", z3.And(c.alive(r), z3.Not(o.alive(r)))
        ds = qdim(o, a.self)
        dr = qdim(c, r)
        yield "unit-live", live(c, qunit(c, r))
        if isinstance(a.other, VObj):
            do = qdim(o, a.other) if a.other.cls == "Quantity" else VObj("Dimension", o.f(a.other, "dimension"))
            yield "dimension", pointwise(c, dr, lambda i: dexp(o, ds, i) + s * dexp(o, do, i))
            # C06: the unit of the result is exactly the product / quotient of the operand units (prefix and factors),
            # so that its physical value is the product / quotient of the operands' values whatever units they are written in
            from pyvc.verify import Args
            ou = qunit(o, a.other) if a.other.cls == "Quantity" else a.other
            UK = _UC["measured.Unit._multiply" if s == 1 else "measured.Unit._divide"]
            for nm, f in UK.ensures(c, Args({"self": qunit(o, a.self), "other": ou}), qunit(c, r)):
                if not nm.startswith("table-grows") and nm != "dimension":
                    yield "unit-" + nm, f
        else:
            yield "unit-kept", c.f(r, "unit") == o.f(a.self, "unit")
        ks, xs = mkind(o, a.self), mval(o, a.self)
        if isinstance(a.other, VObj) and a.other.cls == "Quantity":
            ko, xo = mkind(o, a.other), mval(o, a.other)
            yield "decimal-preserved", kind_rule(mkind(c, r), ks, ko)
            yield "magnitude", (mval(c, r) == xs * xo) if s == 1 else (mval(c, r) * xo == xs)
        elif isinstance(a.other, (VInt, VNum)):
            n = to_num(a.other)
            yield "decimal-preserved", kind_rule(mkind(c, r), ks, n.kind)
            yield "magnitude", (mval(c, r) == xs * n.val) if s == 1 else (mval(c, r) * n.val == xs)
        else:
            yield "magnitude-kept", mag(c, r) == mag(o, a.self)


@contract
class QMul(_QBin):
    qual = "measured.Quantity.__mul__"


@contract
class QTruediv(_QBin):
    qual = "measured.Quantity.__truediv__"
    sign = -1


@contract
class QRtruediv(Contract):
    """number / quantity: the dimension is the inverse (C03 statement)."""
    qual = "measured.Quantity.__rtruediv__"
    props = ("C03",)
    inv = ("I_D", "I_P", "I_U")
    modifies = _UnitBin.modifies + ("new:Quantity",)
    types = {"other": NUMS + [T_UNIT, ("other",)]}  # unit / quantity is not supported (TypeError): it must not start yielding something else

    def ret(self, a):
        return T_QTY if isinstance(a.other, (VInt, VNum)) else ("notimpl",)

    def requires(self, c, a):
        yield "wf-self", wf_qty(c, a.self)

    def raises(self, c, a):
        if isinstance(a.other, (VInt, VNum)):
            yield "ZeroDivisionError", mval(c, a.self) == 0, "zero-divisor"

    def ensures(self, c, a, r):
        o = c.old
        if not isinstance(a.other, (VInt, VNum)):
            yield "not-implemented", z3.BoolVal(isinstance(r, VNotImpl))
            return
        if not (isinstance(r, VObj) and r.cls == "Quantity"):
            yield "returns-quantity", z3.BoolVal(False)
            return
        yield "dimension-inverse", pointwise(c, qdim(c, r), lambda i: -dexp(o, qdim(o, a.self), i))
        yield "decimal-preserved", kind_rule(mkind(c, r), mkind(o, a.self), to_num(a.other).kind)
        yield "magnitude", mval(c, r) * mval(o, a.self) == to_num(a.other).val


@contract
class QPow(Contract):
    qual = "measured.Quantity.__pow__"
    props = ("C03", "C06")
    inv = ("I_D", "I_P", "I_U")
    modifies = _UnitBin.modifies + ("new:Quantity",)
    types = {"power": [("int",)]}
    ret = T_QTY

    def requires(self, c, a):
        yield "wf-self", wf_qty(c, a.self)

    def raises(self, c, a):
        yield "ZeroDivisionError", z3.And(a.power.z < 0, mval(c, a.self) == 0), "zero-to-negative-power"

    def ensures(self, c, a, r):
        o = c.old
        yield "fresh-quantity", z3.And(c.alive(r), z3.Not(o.alive(r)))
        yield "dimension", pointwise(c, qdim(c, r), lambda i: dexp(o, qdim(o, a.self), i) * a.power.z)
        yield "decimal-preserved", kind_rule(mkind(c, r), mkind(o, a.self))
        yield "magnitude", mval(c, r) == rpow(mval(o, a.self), a.power.z)
        from pyvc.verify import Args
        for nm, f in _UC["measured.Unit.__pow__"].ensures(c, Args({"self": qunit(o, a.self), "power": a.power}), qunit(c, r)):
            if not nm.startswith("table-grows") and nm != "dimension":
                yield "unit-" + nm, f


class _QUnary(Contract):
    props = ("C03",)
    modifies = ("new:Quantity",)
    ret = T_QTY
    fn = None

    def requires(self, c, a):
        yield "alive", c.alive(a.self)

    def ensures(self, c, a, r):
        o = c.old
        yield "fresh-quantity", z3.And(c.alive(r), z3.Not(o.alive(r)))
        yield "unit-kept", c.f(r, "unit") == o.f(a.self, "unit")
        yield "kind-kept", mkind(c, r) == mkind(o, a.self)
        x = mval(o, a.self)
        yield "magnitude", mval(c, r) == {"neg": -x, "pos": x, "abs": z3.If(x >= 0, x, -x)}[self.fn]


for _n in ("neg", "pos", "abs"):
    contract(type("QU" + _n, (_QUnary,), {"qual": "measured.Quantity.__%s__" % _n, "fn": _n}))


# ---------------------------------------------------------------------------------------------
# conversion-dependent operations (C03 gate, C06 values, C12 comparisons)


def qval(c, q):
    """physical value of a quantity in the ghost size model: magnitude * size(unit)"""
    return mval(c, q) * size(c, c.f(q, "unit"))


def both_offset_free(c, u1, u2):
    """neither unit involves a temperature-like scale (a property of the factors, not of the prefix)"""
    return z3.And(offset_free_m(c.fz("Unit", u1, "factors")), offset_free_m(c.fz("Unit", u2, "factors")))


@contract
class Convert(Contract):
    """conversions.convert: the dimension gate, the requested unit, Decimal preservation and
    (for offset-free units) the value relation of C04.  VERIFIED against the real body relative to the
    trusted contract of the planner (contracts/c_conversions.PlanConversion): the two loops are proved to
    compute APL(plan, unprefixed magnitude) by the loop specs ConvertOuter / ConvertInner."""
    qual = "measured.conversions.convert"
    props = ("C03", "C04", "C05", "C06", "C07", "C10")
    trusted = False
    inv = ("I_D", "I_P", "I_U")
    modifies = _UnitBin.modifies + ("new:Quantity",)
    ret = T_QTY

    def requires(self, c, a):
        yield "wf-quantity", wf_qty(c, a.quantity)
        yield "wf-unit", wf_unit(c, a.other_unit)

    def raises(self, c, a):
        yield "ConversionNotFound", z3.Or(c.f(qunit(c, a.quantity), "dimension") != c.f(a.other_unit, "dimension"),
                                          noconv(c.f(qunit(c, a.quantity), "factors"), c.f(a.other_unit, "factors"))), "different-dimension-or-no-path"

    def ensures(self, c, a, r):
        o = c.old
        yield "fresh-quantity", z3.And(c.alive(r), z3.Not(o.alive(r)))
        yield "asked-unit", c.f(r, "unit") == a.other_unit.ref
        yield "decimal-preserved", kind_rule(mkind(c, r), mkind(o, a.quantity))
        from .c_conversions import APL, PLAN
        su = o.f(a.quantity, "unit")
        yield "applies-plan", mval(c, r) == APL(PLAN(su, a.other_unit.ref), mval(o, a.quantity) * pval_z(o, o.fz("Unit", su, "prefix")))
        yield "value", z3.Implies(both_offset_free(o, o.f(a.quantity, "unit"), a.other_unit.ref),
                                  mval(c, r) * size(o, a.other_unit.ref) == qval(o, a.quantity))
        for t in ("Unit._known", "Prefix._known", "Dimension._known"):
            yield "table-grows-" + t, same_table_grows(c, t)
        u = z3.Const("u!cv", Ref("Unit"))
        yield "units-unchanged", z3.ForAll([u], z3.Implies(o.alivez("Unit", u), z3.And(
            c.fz("Unit", u, "prefix") == o.fz("Unit", u, "prefix"), c.fz("Unit", u, "factors") == o.fz("Unit", u, "factors"))))


@contract
class QInUnit(Convert):
    qual = "measured.Quantity.in_unit"
    trusted = False

    def requires(self, c, a):
        yield "wf-quantity", wf_qty(c, a.self)
        yield "wf-unit", wf_unit(c, a.other)

    def raises(self, c, a):
        yield "ConversionNotFound", z3.Or(c.f(qunit(c, a.self), "dimension") != c.f(a.other, "dimension"),
                                          noconv(c.f(qunit(c, a.self), "factors"), c.f(a.other, "factors"))), "different-dimension-or-no-path"

    def ensures(self, c, a, r):
        from pyvc.verify import Args
        yield from Convert.ensures(self, c, Args({"quantity": a.self, "other_unit": a.other}), r)


@contract
class QUnprefixed(Contract):
    qual = "measured.Quantity.unprefixed"
    props = ("C03", "C04", "C05", "C06", "C10", "C11", "C12")
    inv = ("I_D", "I_P", "I_U")
    modifies = _UnitBin.modifies + ("new:Quantity",)
    ret = T_QTY

    def requires(self, c, a):
        yield "wf-self", wf_qty(c, a.self)

    def ensures(self, c, a, r):
        o = c.old
        su = qunit(o, a.self)
        ru = qunit(c, r)
        yield "fresh-quantity", z3.And(c.alive(r), z3.Not(o.alive(r)))
        yield "unit-live", live(c, ru)
        yield "unit-unprefixed", c.f(ru, "prefix") == IdentityPrefix.ref
        yield "unit-factors", c.f(ru, "factors") == o.f(su, "factors")
        yield "unit-dimension", pointwise(c, VObj("Dimension", c.f(ru, "dimension")), lambda i: dexp(o, VObj("Dimension", o.f(su, "dimension")), i))
        yield "unit-dimension-identical", c.f(ru, "dimension") == o.f(su, "dimension")
        yield "magnitude", mval(c, r) == mval(o, a.self) * pval_z(o, o.f(su, "prefix"))
        yield "decimal-preserved", kind_rule(mkind(c, r), mkind(o, a.self))
        yield "value-preserved", qval(c, r) == qval(o, a.self)
        for t in ("Unit._known", "Prefix._known", "Dimension._known"):
            yield "table-grows-" + t, same_table_grows(c, t)


class _QAddSub(Contract):
    props = ("C03", "C06")
    inv = ("I_D", "I_P", "I_U")
    modifies = _UnitBin.modifies + ("new:Quantity",)
    types = {"other": [T_QTY, T_UNIT, ("int",), ("other",)]}
    sign = 1

    def ret(self, a):
        return T_QTY if isinstance(a.other, VObj) and a.other.cls == "Quantity" else ("notimpl",)

    def requires(self, c, a):
        yield "wf-self", wf_qty(c, a.self)
        if isinstance(a.other, VObj) and a.other.cls == "Quantity":
            yield "wf-other", wf_qty(c, a.other)

    def raises(self, c, a):
        if isinstance(a.other, VObj) and a.other.cls == "Quantity":
            yield "ConversionNotFound", z3.Or(c.f(qunit(c, a.self), "dimension") != c.f(qunit(c, a.other), "dimension"),
                                              noconv(c.f(qunit(c, a.other), "factors"), c.f(qunit(c, a.self), "factors"))), "different-dimension-or-no-path"

    def ensures(self, c, a, r):
        o = c.old
        if not (isinstance(a.other, VObj) and a.other.cls == "Quantity"):
            yield "not-implemented", z3.BoolVal(isinstance(r, VNotImpl))
            return
        if not (isinstance(r, VObj) and r.cls == "Quantity"):
            yield "returns-quantity", z3.BoolVal(False)
            return
        yield "fresh-quantity", z3.And(c.alive(r), z3.Not(o.alive(r)))
        yield "left-unit", c.f(r, "unit") == o.f(a.self, "unit")
        yield "decimal-preserved", kind_rule(mkind(c, r), mkind(o, a.self), mkind(o, a.other))
        yield "value", z3.Implies(both_offset_free(o, o.f(a.self, "unit"), o.f(a.other, "unit")),
                                  mval(c, r) * size(o, o.f(a.self, "unit")) == qval(o, a.self) + self.sign * qval(o, a.other))


@contract
class QAdd(_QAddSub):
    qual = "measured.Quantity.__add__"


@contract
class QSub(_QAddSub):
    qual = "measured.Quantity.__sub__"
    sign = -1


class _QCompare(Contract):
    """Quantity.__eq__ / __lt__: NotImplemented for other types, other dimensions and when no
    conversion exists (the data model then yields False for == and TypeError for <); otherwise
    the comparison of the physical values.  No exception escapes (C07)."""
    props = ("C03", "C06", "C07", "C10", "C12")  # C10: ordering and equality across scales go through the same two functions
    inv = ("I_D", "I_P", "I_U")
    modifies = _UnitBin.modifies + ("new:Quantity",)
    types = {"other": [T_QTY, T_UNIT, ("int",), ("other",)]}
    op = "eq"

    def ret(self, a):
        if isinstance(a.other, VObj) and a.other.cls == "Quantity":
            return [("bool",), ("notimpl",)]
        return ("notimpl",)

    def requires(self, c, a):
        yield "wf-self", wf_qty(c, a.self)
        if isinstance(a.other, VObj) and a.other.cls == "Quantity":
            yield "wf-other", wf_qty(c, a.other)

    def ensures(self, c, a, r):
        o = c.old
        if not (isinstance(a.other, VObj) and a.other.cls == "Quantity"):
            yield "not-implemented", z3.BoolVal(isinstance(r, VNotImpl))
            return
        same_dim = o.f(qunit(o, a.self), "dimension") == o.f(qunit(o, a.other), "dimension")
        F1, F2 = o.f(qunit(o, a.self), "factors"), o.f(qunit(o, a.other), "factors")
        gives_up = z3.Or(z3.Not(same_dim), z3.And(F1 != F2, noconv(F1, F2)))
        if isinstance(r, VNotImpl):
            # NotImplemented exactly for another dimension or when no conversion from self's unit to other's exists
            yield "notimplemented-exactly-when", gives_up
            return
        if not isinstance(r, VBool):
            yield "returns-bool-or-notimplemented", z3.BoolVal(False)
            return
        yield "bool-exactly-when", z3.Not(gives_up)
        yield "same-dimension", same_dim
        x, y = qval(o, a.self), qval(o, a.other)
        yield "physical-value", z3.Implies(both_offset_free(o, o.f(a.self, "unit"), o.f(a.other, "unit")),
                                          r.z == ((x == y) if self.op == "eq" else (x < y)))
        for t in ("Unit._known", "Prefix._known", "Dimension._known"):
            yield "table-grows-" + t, same_table_grows(c, t)

    def exit_obligations(self, c, a, r):
        return []


@contract
class QEq(_QCompare):
    qual = "measured.Quantity.__eq__"


@contract
class QLt(_QCompare):
    qual = "measured.Quantity.__lt__"
    op = "lt"


@contract
class QRoot(Contract):
    """Quantity.root: root of the unit, magnitude ** (1/degree) (reals, A4)"""
    qual = "measured.Quantity.root"
    props = ("C03", "C14")
    inv = ("I_D", "I_P", "I_U")
    modifies = _UnitBin.modifies + ("new:Quantity",)
    types = {"degree": [("int",)]}
    ret = T_QTY

    def requires(self, c, a):
        yield "wf-self", wf_qty(c, a.self)

    def raises(self, c, a):
        from .c_unit import UnitRoot
        from pyvc.verify import Args
        for exc, when, label in CONTRACTS_UNIT_ROOT.raises(c, Args({"self": qunit(c, a.self), "degree": a.degree})):
            yield exc, when, label

    def ensures(self, c, a, r):
        o = c.old
        n = a.degree.z
        yield "fresh-quantity", z3.And(c.alive(r), z3.Not(o.alive(r)))
        yield "degree-zero", z3.Implies(n == 0, z3.And(c.f(r, "unit") == One.ref, mval(c, r) == 1))
        yield "decimal-preserved", z3.Implies(n != 0, kind_rule(mkind(c, r), mkind(o, a.self)))
        yield "dimension", z3.Implies(n != 0, pointwise_rel(c, qdim(c, r), lambda i, e: e * n == dexp(o, qdim(o, a.self), i)))
        yield "magnitude", z3.Implies(n != 0, mval(c, r) == rpowr(mval(o, a.self), 1 / z3.ToReal(n)))
        yield "unit-is-root", z3.Implies(n != 0, z3.And(live(c, qunit(c, r)),
                                                      z3.ForAll([z3.Const("b!qr", Ref("Unit"))], z3.Implies(z3.Const("b!qr", Ref("Unit")) != One.ref,
                                                      facv(c, qunit(c, r), z3.Const("b!qr", Ref("Unit"))) * n == facv(o, qunit(o, a.self), z3.Const("b!qr", Ref("Unit")))))))


CONTRACTS_UNIT_ROOT = _UC["measured.Unit.root"]
