"""Contracts for measured.Prefix (C02, C11)."""
import z3
from pyvc.sorts import *  # noqa
from pyvc.verify import Contract
from pyvc.ops import rlog, rpowr
from .model import *  # noqa

CONTRACTS = {}


def contract(cls):
    CONTRACTS[cls.qual] = cls()
    return cls


def wf_pfx(c, p):
    return z3.And(c.alive(p), init(c, p))


def is_canon(c, r, base, e):
    """r is the canonical prefix denoting base**e: IdentityPrefix when e == 0 and base != 0"""
    return z3.And(c.alive(r), init(c, r),
                  z3.If(z3.And(base != 0, e == 0), r.ref == IdentityPrefix.ref,
                        z3.And(pbase(c, r) == base, pexp(c, r) == e)))


def opt_truthy(z):
    return z3.And(OptStr.is_osome(z), z3.Length(OptStr.oget(z)) > 0)


def I_RP(c):
    """Prefix registries: a name (symbol) is bound to a prefix exactly when the prefix reports it."""
    n = z3.String("n!RP")
    p = z3.Const("p!RP", Ref("Prefix"))
    lv = lambda r: z3.And(c.alivez("Prefix", r), c.fz("Prefix", r, "_initialized"))
    for reg, fld in (("Prefix._by_name", "name"), ("Prefix._by_symbol", "symbol")):
        T = c.g(reg)
        yield "I_RP.%s-reported" % fld, z3.ForAll([n], z3.Implies(
            z3.Select(T.dom, n), z3.And(lv(z3.Select(T.val, n)), c.fz("Prefix", z3.Select(T.val, n), fld) == OptStr.osome(n), z3.Length(n) > 0)))
        yield "I_RP.%s-bound" % fld, z3.ForAll([p], z3.Implies(
            z3.And(lv(p), opt_truthy(c.fz("Prefix", p, fld))),
            z3.And(z3.Select(T.dom, OptStr.oget(c.fz("Prefix", p, fld))), z3.Select(T.val, OptStr.oget(c.fz("Prefix", p, fld))) == p)))


INVARIANTS["I_RP"] = I_RP


@contract
class PrefixCtor(Contract):
    """Prefix(base, exponent[, name, symbol]): the canonical object; a declared name and
    symbol end up bound to it and reported by it (also when an equal anonymous prefix
    already existed), or ValueError and no registry changed (C19)."""
    qual = "measured.Prefix"
    ctor = True
    props = ("C02", "C11", "C19", "C20")
    inv = ("I_P", "I_RP")
    modifies = ("new:Prefix", "Prefix._known", "Prefix._by_name", "Prefix._by_symbol", "Prefix.name", "Prefix.symbol")
    types = {"base": [("int",)], "exponent": [("int",), ("float",), ("dec",)], "name": [("none",), ("str",)], "symbol": [("none",), ("str",)]}
    ret = T_PFX

    def _anonymous(self, a):
        return isinstance(a.name, VNone) and isinstance(a.symbol, VNone)

    def inv_for(self, a):
        return ("I_P",) if self._anonymous(a) else self.inv

    def modifies_for(self, a):
        return ("new:Prefix", "Prefix._known") if self._anonymous(a) else self.modifies

    def _target(self, c, a):
        from pyvc.ops import to_num
        e = to_num(a.exponent).val
        T = c.g("Prefix._known")
        collapse = z3.And(a.base.z != 0, e == 0)
        k = pkey(a.base.z, e)
        exists = z3.Or(collapse, z3.Select(T.dom, k))
        target = z3.If(collapse, IdentityPrefix.ref, z3.Select(T.val, k))
        return exists, target

    def _conflicts(self, c, a):
        exists, target = self._target(c, a)
        out = []
        for arg, reg, fld in ((a.name, "Prefix._by_name", "name"), (a.symbol, "Prefix._by_symbol", "symbol")):
            if isinstance(arg, VNone):
                continue
            R = c.g(reg)
            t = z3.Length(arg.z) > 0
            out.append(z3.And(t, z3.Select(R.dom, arg.z), z3.Not(z3.And(exists, z3.Select(R.val, arg.z) == target))))
            cur = c.fz("Prefix", target, fld)
            out.append(z3.And(t, exists, opt_truthy(cur), OptStr.oget(cur) != arg.z))
        return z3.Or(out) if out else z3.BoolVal(False)

    def raises(self, c, a):
        yield "ValueError", self._conflicts(c, a), "name-or-symbol-conflict"

    def exc_ensures(self, c, a, exc):
        o = c.old
        p = z3.Const("p!ex", Ref("Prefix"))
        yield "by_name-unchanged", table_unchanged(c, "Prefix._by_name")
        yield "by_symbol-unchanged", table_unchanged(c, "Prefix._by_symbol")
        yield "reported-unchanged", z3.ForAll([p], z3.Implies(z3.And(o.alivez("Prefix", p), o.fz("Prefix", p, "_initialized")), z3.And(
            c.fz("Prefix", p, "name") == o.fz("Prefix", p, "name"), c.fz("Prefix", p, "symbol") == o.fz("Prefix", p, "symbol"))))

    def ensures(self, c, a, r):
        from pyvc.ops import to_num
        o = c.old
        yield "canonical", is_canon(c, r, a.base.z, to_num(a.exponent).val)
        yield "table-grows", same_table_grows(c, "Prefix._known")
        p = z3.Const("p!en", Ref("Prefix"))
        for arg, reg, fld in ((a.name, "Prefix._by_name", "name"), (a.symbol, "Prefix._by_symbol", "symbol")):
            R, R0 = c.g(reg), o.g(reg)
            if isinstance(arg, VNone):
                if not self._anonymous(a):
                    yield reg + "-unchanged", table_unchanged(c, reg)
                    yield fld + "-of-old-prefixes-unchanged", z3.ForAll([p], z3.Implies(
                        z3.And(o.alivez("Prefix", p), o.fz("Prefix", p, "_initialized")), c.fz("Prefix", p, fld) == o.fz("Prefix", p, fld)))
                continue
            t = z3.Length(arg.z) > 0
            yield fld + "-bound-and-reported", z3.Implies(t, z3.And(z3.Select(R.dom, arg.z), z3.Select(R.val, arg.z) == r.ref,
                                                                  c.f(r, fld) == OptStr.osome(arg.z)))
            yield reg + "-others-kept", z3.And(R.dom == z3.If(t, z3.Store(R0.dom, arg.z, z3.BoolVal(True)), R0.dom),
                                               R.val == z3.If(t, z3.Store(R0.val, arg.z, r.ref), R0.val))
            yield fld + "-of-other-prefixes-unchanged", z3.ForAll([p], z3.Implies(
                z3.And(o.alivez("Prefix", p), o.fz("Prefix", p, "_initialized"), p != r.ref), c.fz("Prefix", p, fld) == o.fz("Prefix", p, fld)))


def same_base_or_log(c, a, sign):
    """exponent of self (*|/) other, following the code's three arms"""
    b1, e1 = pbase(c, a.self), pexp(c, a.self)
    b2, e2 = pbase(c, a.other), pexp(c, a.other)
    return b1, e1, b2, e2


def pfx_binop_post(c, o, r, p, q, s):
    """r (in state c) is the prefix p*q (s=1) or p/q (s=-1) of prefixes read in state o"""
    b1, e1, b2, e2 = pbase(o, p), pexp(o, p), pbase(o, q), pexp(o, q)
    yield "other-identity", z3.Implies(b2 == 0, r.ref == p.ref)
    if s == 1:
        yield "self-identity", z3.Implies(z3.And(b2 != 0, b1 == 0), r.ref == q.ref)
    else:
        yield "self-identity", z3.Implies(z3.And(b2 != 0, b1 == 0), is_canon(c, r, b2, -e2))
    yield "same-base", z3.Implies(z3.And(b1 != 0, b2 == b1), is_canon(c, r, b1, e1 + s * e2))
    yield "mixed-base", z3.Implies(z3.And(b1 != 0, b2 != 0, b2 != b1),
                                   is_canon(c, r, b1, e1 + s * (e2 * (rlog(z3.ToReal(b2)) / rlog(z3.ToReal(b1))))))
    yield "is-prefix", z3.And(c.alive(r), init(c, r))


def bases_ok(c, p):
    return z3.Or(pbase(c, p) == 0, pbase(c, p) >= 2)


class _PfxBin(Contract):
    props = ("C02", "C06", "C11")  # C06: a*b, a/b, a**n are unit independent only if the prefix algebra is exact
    inv = ("I_P",)
    modifies = ("new:Prefix", "Prefix._known")
    ret = T_PFX
    sign = 1
    types = {"other": [T_PFX]}

    def requires(self, c, a):
        yield "wf-self", wf_pfx(c, a.self)
        yield "wf-other", wf_pfx(c, a.other)
        # mixed bases: both logs must be defined (bases >= 2)
        yield "bases", z3.And(z3.Or(pbase(c, a.self) == 0, pbase(c, a.self) >= 2), z3.Or(pbase(c, a.other) == 0, pbase(c, a.other) >= 2))

    def ensures(self, c, a, r):
        yield from pfx_binop_post(c, c.old, r, a.self, a.other, self.sign)
        yield "table-grows", same_table_grows(c, "Prefix._known")


@contract
class PfxTruediv(_PfxBin):
    qual = "measured.Prefix.__truediv__"
    sign = -1
    types = {"other": [T_PFX, T_UNIT, ("int",), ("other",)]}

    def ret(self, a):
        return T_PFX if isinstance(a.other, VObj) and a.other.cls == "Prefix" else ("notimpl",)

    def requires(self, c, a):
        if isinstance(a.other, VObj) and a.other.cls == "Prefix":
            yield from _PfxBin.requires(self, c, a)
        else:
            yield "wf-self", wf_pfx(c, a.self)

    def ensures(self, c, a, r):
        if isinstance(a.other, VObj) and a.other.cls == "Prefix":
            if not isinstance(r, VObj):
                yield "returns-prefix", z3.BoolVal(False)
                return
            yield from _PfxBin.ensures(self, c, a, r)
        else:
            yield "not-implemented", z3.BoolVal(isinstance(r, VNotImpl))


@contract
class PfxPow(Contract):
    qual = "measured.Prefix.__pow__"
    props = ("C02", "C06", "C11")
    inv = ("I_P",)
    modifies = ("new:Prefix", "Prefix._known")
    ret = T_PFX
    types = {"power": [("int",)]}

    def requires(self, c, a):
        yield "wf-self", wf_pfx(c, a.self)

    def ensures(self, c, a, r):
        o = c.old
        yield "canonical", is_canon(c, r, pbase(o, a.self), pexp(o, a.self) * z3.ToReal(a.power.z))
        yield "table-grows", same_table_grows(c, "Prefix._known")


@contract
class PfxRoot(Contract):
    qual = "measured.Prefix.root"
    props = ("C02", "C06", "C11")
    inv = ("I_P",)
    modifies = ("new:Prefix", "Prefix._known")
    ret = T_PFX
    types = {"degree": [("int",)]}

    def requires(self, c, a):
        yield "wf-self", wf_pfx(c, a.self)

    def raises(self, c, a):
        n = z3.ToReal(a.degree.z)
        q = pexp(c, a.self) / n
        yield "FractionalDimensionError", z3.And(a.degree.z != 0, z3.ToReal(z3.ToInt(q)) != q), "indivisible"

    def ensures(self, c, a, r):
        o = c.old
        n = a.degree.z
        yield "degree-zero", z3.Implies(n == 0, r.ref == IdentityPrefix.ref)
        yield "root", z3.Implies(n != 0, z3.And(c.alive(r), init(c, r), pexp(c, r) * z3.ToReal(n) == pexp(o, a.self),
                                                z3.Implies(pexp(o, a.self) != 0, pbase(c, r) == pbase(o, a.self)),
                                                z3.Implies(z3.And(pexp(o, a.self) == 0, pbase(o, a.self) != 0), r.ref == IdentityPrefix.ref)))
        yield "table-grows", same_table_grows(c, "Prefix._known")


@contract
class PfxMul(Contract):
    """Prefix.__mul__ / __rmul__: prefix*prefix, prefix*unit, prefix*number."""
    qual = "measured.Prefix.__mul__"
    props = ("C01", "C02", "C06", "C11")
    inv = ("I_D", "I_P", "I_U")
    modifies = ("new:Prefix", "Prefix._known", "new:Unit", "Unit._known")
    types = {"other": [T_PFX, T_UNIT, ("other",)]}

    def ret(self, a):
        if isinstance(a.other, VObj):
            return ("obj", a.other.cls)
        return ("notimpl",)

    def requires(self, c, a):
        yield "wf-self", wf_pfx(c, a.self)
        yield "base-self", bases_ok(c, a.self)
        if isinstance(a.other, VObj) and a.other.cls == "Prefix":
            yield "wf-other", wf_pfx(c, a.other)
            yield "base-other", bases_ok(c, a.other)
        elif isinstance(a.other, VObj) and a.other.cls == "Unit":
            from .c_unit import wf_unit
            yield "wf-other", wf_unit(c, a.other)

    def ensures(self, c, a, r):
        o = c.old
        if isinstance(a.other, VObj) and a.other.cls == "Prefix":
            if not (isinstance(r, VObj) and r.cls == "Prefix"):
                yield "returns-prefix", z3.BoolVal(False)
                return
            yield from pfx_binop_post(c, o, r, a.self, a.other, 1)
            yield "unit-table-unchanged", table_unchanged(c, "Unit._known")
        elif isinstance(a.other, VObj) and a.other.cls == "Unit":
            if not (isinstance(r, VObj) and r.cls == "Unit"):
                yield "returns-unit", z3.BoolVal(False)
                return
            from .c_unit import live
            yield "is-unit", live(c, r)
            # the unit's prefix is (unit.prefix * self); factors and dimension are kept
            for nm, f in pfx_binop_post(c, o, VObj("Prefix", c.f(r, "prefix")), VObj("Prefix", o.f(a.other, "prefix")), a.self, 1):
                yield "unit-prefix-" + nm, f
            yield "unit-factors", c.f(r, "factors") == o.f(a.other, "factors")
            yield "unit-dimension", pointwise_d(c, o, c.f(r, "dimension"), o.f(a.other, "dimension"))
            yield "table-grows-Unit._known", same_table_grows(c, "Unit._known")
        else:
            yield "not-implemented", z3.BoolVal(isinstance(r, VNotImpl))
        yield "table-grows", same_table_grows(c, "Prefix._known")


def pointwise_d(c, o, d_new, d_old):
    i = z3.Int("i!pd")
    return z3.ForAll([i], z3.Implies(z3.And(i >= 0, i < NDIM),
                                     z3.Select(ITup.iarr(c.fz("Dimension", d_new, "exponents")), i)
                                     == z3.Select(ITup.iarr(o.fz("Dimension", d_old, "exponents")), i)))


def pval(c, p):
    """ghost: the numeric factor base**exponent of a prefix (A4: real power, uninterpreted)"""
    return rpowr(z3.ToReal(pbase(c, p)), pexp(c, p))


@contract
class PfxQuantify(Contract):
    qual = "measured.Prefix.quantify"
    props = ("C04", "C05", "C06", "C10", "C11", "C12")
    ret = ("num",)

    def requires(self, c, a):
        yield "wf-self", wf_pfx(c, a.self)

    def ensures(self, c, a, r):
        from pyvc.ops import to_num
        yield "value", to_num(r).val == pval(c, a.self)
        yield "decimal-only-if-exponent-is", z3.Implies(Num.nkind(c.f(a.self, "exponent")) != K_DEC, to_num(r).kind != K_DEC)
