"""Lemma functions (C02, C11, C12): small Python programs over the public API, executed
symbolically by pyvc against the CONTRACTS of the operations they call (never their
bodies).  Each `assert` is a proof obligation.  This file is not part of the library."""
from measured import Dimension, One, Number, IdentityPrefix, Prefix, Quantity, Unit, LogarithmicUnit


def dim_commutative(a: Dimension, b: Dimension) -> None:
    assert a * b is b * a


def dim_associative(a: Dimension, b: Dimension, c: Dimension) -> None:
    assert (a * b) * c is a * (b * c)


def dim_neutral(a: Dimension) -> None:
    assert a * Number is a
    assert a / Number is a


def dim_inverse(a: Dimension) -> None:
    assert a * a**-1 is Number
    assert a / a is Number


def dim_div_is_mul_inverse(a: Dimension, b: Dimension) -> None:
    assert a / b is a * b**-1


def dim_exponent_sum(a: Dimension, m: int, n: int) -> None:
    assert a**m * a**n is a ** (m + n)


def dim_exponent_product(a: Dimension, m: int, n: int) -> None:
    assert (a**m) ** n is a ** (m * n)


def dim_root_of_power(a: Dimension, n: int) -> None:
    if n != 0:
        assert (a**n).root(n) is a


def prefix_commutative(p: Prefix, q: Prefix) -> None:
    assert p * q is q * p


def prefix_associative(p: Prefix, q: Prefix, r: Prefix) -> None:
    assert (p * q) * r is p * (q * r)


def prefix_neutral(p: Prefix) -> None:
    assert p * IdentityPrefix is p
    assert IdentityPrefix * p is p
    assert p / IdentityPrefix is p


def prefix_inverse(p: Prefix) -> None:
    assert p * p**-1 is IdentityPrefix
    assert p / p is IdentityPrefix


def prefix_div_is_mul_inverse(p: Prefix, q: Prefix) -> None:
    assert p / q is p * q**-1


def prefix_exponent_sum(p: Prefix, m: int, n: int) -> None:
    assert p**m * p**n is p ** (m + n)


def prefix_root_of_power(p: Prefix, n: int) -> None:
    if n != 0:
        assert (p**n).root(n) is p


def unit_commutative(a: Unit, b: Unit) -> None:
    assert a * b is b * a


def unit_associative(a: Unit, b: Unit, c: Unit) -> None:
    assert (a * b) * c is a * (b * c)


def unit_neutral(a: Unit) -> None:
    assert a * One is a
    assert a / One is a


def unit_inverse(a: Unit) -> None:
    assert a * a**-1 is One
    assert a / a is One


def unit_div_is_mul_inverse(a: Unit, b: Unit) -> None:
    assert a / b is a * b**-1


def unit_exponent_sum(a: Unit, m: int, n: int) -> None:
    assert a**m * a**n is a ** (m + n)


def unit_root_of_power(a: Unit, n: int) -> None:
    if n != 0:
        assert (a**n).root(n) is a


def prefixed_power(p: Prefix, u: Unit, n: int) -> None:
    # C11: (p*u)**n is p**n * u**n
    assert (p * u) ** n is p**n * u**n


# ---- C12: comparisons are coherent (over the contracts of Quantity.__eq__ / __lt__) -------------


def qty_eq_reflexive(a: Quantity) -> None:
    assert a == a


def qty_eq_symmetric(a: Quantity, b: Quantity) -> None:
    assert (a == b) == (b == a)


def qty_trichotomy(a: Quantity, b: Quantity) -> None:
    # exactly one of a < b, a == b, a > b whenever the ordering is defined at all
    lt = a < b
    gt = a > b
    eq = a == b
    assert (lt and not eq and not gt) or (eq and not lt and not gt) or (gt and not lt and not eq)


def qty_le_ge_mirror(a: Quantity, b: Quantity) -> None:
    assert (a <= b) == (b >= a)


# ---- C18: the level of a quantity is strictly increasing in the quantity ------------------------


def level_monotone(lu: LogarithmicUnit, q1: Quantity, q2: Quantity) -> None:
    if q1.unit is q2.unit and q1.magnitude < q2.magnitude:
        assert lu.level(q1).magnitude < lu.level(q2).magnitude


# ---- C05: conversion of offset-free units is an invertible linear scaling (over the contract of
# Quantity.in_unit / conversions.convert, which is itself verified relative to the planner contract) ---


def conv_linear(q: Quantity, k: int, target: Unit) -> None:
    assert (q * k).in_unit(target).magnitude == k * q.in_unit(target).magnitude


def conv_zero_and_sign(q: Quantity, target: Unit) -> None:
    r = q.in_unit(target)
    if q.magnitude == 0:
        assert r.magnitude == 0
    if q.magnitude > 0:
        assert r.magnitude > 0
    if q.magnitude < 0:
        assert r.magnitude < 0


def conv_identity(q: Quantity) -> None:
    assert q.in_unit(q.unit).magnitude == q.magnitude


def conv_round_trip(q: Quantity, target: Unit) -> None:
    assert q.in_unit(target).in_unit(q.unit).magnitude == q.magnitude


def conv_route_independent(q: Quantity, via: Unit, target: Unit) -> None:
    assert q.in_unit(via).in_unit(target).magnitude == q.in_unit(target).magnitude


# ---- vacuity canaries: each MUST fail (a canary that is discharged means the hypotheses of the lemma
# contracts are contradictory and every lemma above would hold vacuously) --------------------------


def canary_unit(a: Unit, b: Unit) -> None:
    assert a * b is a


def canary_prefix(p: Prefix, q: Prefix) -> None:
    assert p * q is p


def canary_dim(a: Dimension, b: Dimension) -> None:
    assert a * b is a


def canary_qty(a: Quantity, b: Quantity) -> None:
    assert a == b


def canary_level(lu: LogarithmicUnit, q1: Quantity, q2: Quantity) -> None:
    if q1.unit is q2.unit and q1.magnitude < q2.magnitude:
        assert lu.level(q1).magnitude > lu.level(q2).magnitude


def canary_conv(q: Quantity, target: Unit) -> None:
    assert q.in_unit(target).magnitude == q.magnitude
