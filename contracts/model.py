"""Schema of the measured object world, ghost spec functions, global invariants and the
lemma-instance generator (DESIGN.md 2.4, 2.5)."""
import z3
from pyvc.sorts import *  # noqa
from pyvc.state import Schema
from pyvc.ops import rpow, rpowr, rlog, rsqrt

T_DIM, T_PFX, T_UNIT, T_QTY = ("obj", "Dimension"), ("obj", "Prefix"), ("obj", "Unit"), ("obj", "Quantity")
T_FMAP = ("map", T_UNIT, ("int",))
T_UKEY = ("tup", [T_PFX, T_FMAP])
T_PKEY = ("tup", [("int",), ("real",)])

SCHEMA = Schema()
SCHEMA.fields = {
    "Dimension": {"_initialized": ("bool",), "exponents": ("ituple",), "name": ("optstr",), "symbol": ("optstr",)},
    "Prefix": {"_initialized": ("bool",), "base": ("int",), "exponent": ("num",), "name": ("optstr",), "symbol": ("optstr",)},
    "Unit": {"_initialized": ("bool",), "prefix": T_PFX, "factors": T_FMAP, "dimension": T_DIM,
             "names": ("strseq",), "symbols": ("strseq",)},
    "Quantity": {"magnitude": ("num",), "unit": T_UNIT},
    "Logarithm": {"_initialized": ("bool",), "base": ("num",), "prefix": T_PFX, "name": ("optstr",), "symbol": ("optstr",)},
    "LogarithmicUnit": {"_initialized": ("bool",), "logarithm": ("obj", "Logarithm"), "reference": T_QTY,
                        "name": ("optstr",), "symbol": ("optstr",)},
    "Level": {"magnitude": ("num",), "unit": ("obj", "LogarithmicUnit")},
    "Measurement": {"measurand": T_QTY, "uncertainty": T_QTY},
}
SCHEMA.globals = {
    "Dimension._known": ("dict", ("ituple",), T_DIM),
    "Dimension._by_name": ("dict", ("str",), T_DIM),
    "Prefix._known": ("dict", T_PKEY, T_PFX),
    "Prefix._by_name": ("dict", ("str",), T_PFX),
    "Prefix._by_symbol": ("dict", ("str",), T_PFX),
    "Unit._known": ("dict", T_UKEY, T_UNIT),
    "Unit._by_name": ("dict", ("str",), T_UNIT),
    "Unit._by_symbol": ("dict", ("str",), T_UNIT),
    "Unit._base": ("set", T_UNIT),
    "ROOT_POWER_DIMENSIONS": ("set", T_DIM),
    "conversions._ratios": ("dict2", T_UNIT, ("num",)),
    "conversions._offsets": ("dict2", T_UNIT, ("num",)),
}
for _g in list(SCHEMA.globals):
    if "." not in _g:
        continue
    _c, _a = _g.split(".")
    if _c != "conversions":
        SCHEMA.class_attr[(_c, _a)] = _g

SCHEMA.consts = {"Number": T_DIM, "IdentityPrefix": T_PFX, "One": T_UNIT}
_CONST_Z = {n: z3.Const("g_" + n, sort_of(t)) for n, t in SCHEMA.consts.items()}


def _const_value(name):
    return wrap(_CONST_Z[name], SCHEMA.consts[name])


SCHEMA.const_value = _const_value

Number, IdentityPrefix, One = (_const_value(n) for n in ("Number", "IdentityPrefix", "One"))

NDIM = z3.Int("NDIM")  # number of fundamental dimensions (length of every exponent tuple)

# ghost: exponent i of the dimension of base unit b (rigid; linked to the heap by Inv_dim)
bdexp = z3.Function("bdexp", Ref("Unit"), I, I)
# ghost fold (C01): dimOf(F)(i) = sum over b of F[b] * bdexp(b, i); F given by its value array
dimOf = z3.Function("dimOf", z3.ArraySort(Ref("Unit"), I), I, I)


# ---------------------------------------------------------------------------------------------
# helpers over a Ctx


def exps(c, d):
    return VITup(c.f(d, "exponents"))


def dexp(c, d, i):
    return z3.Select(exps(c, d).arr, i)


def init(c, o):
    return c.f(o, "_initialized")


def fac(c, u):
    return wrap(c.f(u, "factors"), T_FMAP)


def facv(c, u, b):
    return z3.Select(fac(c, u).val, b)


def wf_ituple_z(z):
    i = z3.Int("i!wf")
    return z3.And(ITup.ilen(z) >= 0, z3.ForAll([i], z3.Implies(z3.Or(i < 0, i >= ITup.ilen(z)), z3.Select(ITup.iarr(z), i) == 0)))


def pview(c, p):
    """(base, exponent value) of a prefix."""
    return c.f(p, "base"), Num.nval(c.f(p, "exponent"))


def same_table_grows(c, name):
    """every entry of the old table is still there with the same value"""
    new, old = c.g(name), c.old.g(name)
    k = z3.Const("k!tg", new.dom.sort().domain())
    return z3.ForAll([k], z3.Implies(z3.Select(old.dom, k), z3.And(z3.Select(new.dom, k), z3.Select(new.val, k) == z3.Select(old.val, k))))


def table_unchanged(c, name):
    new, old = c.g(name), c.old.g(name)
    return z3.And(new.dom == old.dom, new.val == old.val)


# ---------------------------------------------------------------------------------------------
# invariants


def I_D(c):
    """Dimension intern table: keys are the exponent tuples of their (initialised, alive)
    values; every initialised dimension is the table entry of its exponents; all exponent
    tuples have length NDIM and are normalised."""
    T = c.g("Dimension._known")
    t = z3.Const("t!ID", ITup)
    d = z3.Const("d!ID", Ref("Dimension"))
    i = z3.Int("i!ID")
    D = lambda r: VObj("Dimension", r)
    yield "I_D.ndim", NDIM >= 1
    yield "I_D.entries", z3.ForAll([t], z3.Implies(
        z3.Select(T.dom, t),
        z3.And(c.alivez("Dimension", z3.Select(T.val, t)),
               c.fz("Dimension", z3.Select(T.val, t), "_initialized"),
               c.fz("Dimension", z3.Select(T.val, t), "exponents") == t)))
    yield "I_D.canonical", z3.ForAll([d], z3.Implies(
        z3.And(c.alivez("Dimension", d), c.fz("Dimension", d, "_initialized")),
        z3.And(z3.Select(T.dom, c.fz("Dimension", d, "exponents")),
               z3.Select(T.val, c.fz("Dimension", d, "exponents")) == d)))
    yield "I_D.length", z3.ForAll([d], z3.Implies(
        z3.And(c.alivez("Dimension", d), c.fz("Dimension", d, "_initialized")),
        z3.And(ITup.ilen(c.fz("Dimension", d, "exponents")) == NDIM,
               z3.ForAll([i], z3.Implies(z3.Or(i < 0, i >= NDIM), z3.Select(ITup.iarr(c.fz("Dimension", d, "exponents")), i) == 0)))))
    yield "I_D.number", z3.And(c.alive(Number), init(c, Number),
                               z3.ForAll([i], dexp(c, Number, i) == 0))


INVARIANTS = {"I_D": I_D}


class Spec:
    """Glue between the generic verifier and the measured-specific model."""

    def __init__(self):
        self.map_terms = []

    def install(self, eng):
        from . import lemmas
        eng.builtins["__mapbuilt__"] = lemmas.map_built

    def global_axioms(self):
        if getattr(self, "_ga", None) is None:
            self._ga = self._global_axioms()
        return self._ga

    def _global_axioms(self):
        x = z3.Real("x!ax")
        from .c_registry import memb_axioms
        return [z3.ForAll([x], z3.Implies(x > 1, rlog(x) > 0)), rlog(z3.RealVal(1)) == 0] + memb_axioms() + size_axioms()

    def invariant(self, name, c):
        return list(INVARIANTS[name](c))

    def any_types(self):
        return [T_QTY, ("obj", "Level"), ("obj", "Measurement"), T_UNIT, T_PFX, T_DIM, ("int",), ("other",)]

    def applicable(self, K, a):
        f = getattr(K, "applicable", None)
        return f(a) if f else True

    def combo_ok(self, K, combo):
        f = getattr(K, "combo_ok", None)
        return f(combo) if f else True

    def lemma_instances(self, ob):
        from . import lemmas
        from pyvc.ops import divmod_axioms
        return lemmas.instances(ob, list(self.global_axioms()) + divmod_axioms())

    def describe_model(self, model, ob):
        return str(model)[:4000]


# ---------------------------------------------------------------------------------------------
# Prefix


def pbase(c, p):
    return c.f(p, "base")


def pexp(c, p):
    return Num.nval(c.f(p, "exponent"))


def pkey(base, e):
    return sort_of(T_PKEY).constructor(0)(base, e)


def I_P(c):
    """Prefix intern table: keys are (base, exponent value) of their values; every
    initialised prefix is the entry of its key; exponent 0 with base != 0 is never stored."""
    T = c.g("Prefix._known")
    k = z3.Const("k!IP", sort_of(T_PKEY))
    p = z3.Const("p!IP", Ref("Prefix"))
    ks = sort_of(T_PKEY)
    k0, k1 = ks.accessor(0, 0), ks.accessor(0, 1)
    F = lambda r, f: c.fz("Prefix", r, f)
    yield "I_P.entries", z3.ForAll([k], z3.Implies(
        z3.Select(T.dom, k),
        z3.And(c.alivez("Prefix", z3.Select(T.val, k)), F(z3.Select(T.val, k), "_initialized"),
               F(z3.Select(T.val, k), "base") == k0(k), Num.nval(F(z3.Select(T.val, k), "exponent")) == k1(k))))
    yield "I_P.canonical", z3.ForAll([p], z3.Implies(
        z3.And(c.alivez("Prefix", p), F(p, "_initialized")),
        z3.And(z3.Select(T.dom, pkey(F(p, "base"), Num.nval(F(p, "exponent")))),
               z3.Select(T.val, pkey(F(p, "base"), Num.nval(F(p, "exponent")))) == p)))
    yield "I_P.no-zero-exponent", z3.ForAll([p], z3.Implies(
        z3.And(c.alivez("Prefix", p), F(p, "_initialized"), F(p, "base") != 0), Num.nval(F(p, "exponent")) != 0))
    yield "I_P.identity", z3.And(c.alive(IdentityPrefix), init(c, IdentityPrefix), pbase(c, IdentityPrefix) == 0,
                                 pexp(c, IdentityPrefix) == 0,
                                 rpowr(z3.ToReal(pbase(c, IdentityPrefix)), pexp(c, IdentityPrefix)) == 1)


INVARIANTS["I_P"] = I_P


# ---------------------------------------------------------------------------------------------
# Unit


def ukey(prefix_ref, fmap_z):
    return sort_of(T_UKEY).constructor(0)(prefix_ref, fmap_z)


def fmap_z(dom, val):
    return map_parts(sort_of(T_FMAP))[0](dom, val)


def single_map(b_ref, n=1):
    U = Ref("Unit")
    return fmap_z(z3.Store(z3.K(U, z3.BoolVal(False)), b_ref, z3.BoolVal(True)),
                  z3.Store(z3.K(U, z3.IntVal(0)), b_ref, z3.IntVal(n)))


def is_base(c, b):
    """b is a base unit: its factor map is {b: 1} and it carries no prefix"""
    return z3.And(c.fz("Unit", b, "factors") == single_map(b), c.fz("Unit", b, "prefix") == IdentityPrefix.ref)


def NF(c, m, self_ref=None):
    """Normal form of a factor map value m (VMap): keys are alive initialised base units,
    no zero exponents, not empty, One only as {One: 1}, val normalised to 0 outside dom."""
    b = z3.Const("b!NF", Ref("Unit"))
    yield "nonempty", m.dom != z3.K(Ref("Unit"), z3.BoolVal(False))
    keyok = z3.And(c.alivez("Unit", b), c.fz("Unit", b, "_initialized"), is_base(c, b))
    if self_ref is not None:
        keyok = z3.Or(b == self_ref, keyok)
    yield "keys-base", z3.ForAll([b], z3.Implies(z3.Select(m.dom, b), z3.And(keyok, z3.Select(m.val, b) != 0)))
    yield "normalised", z3.ForAll([b], z3.Implies(z3.Not(z3.Select(m.dom, b)), z3.Select(m.val, b) == 0))
    yield "one-alone", z3.Implies(z3.Select(m.dom, One.ref), fmap_z(m.dom, m.val) == single_map(One.ref))


def inv_dim_at(c, u_ref):
    """C01 at one unit: its dimension's exponents are the fold of its factors"""
    i = z3.Int("i!dim")
    d = c.fz("Unit", u_ref, "dimension")
    F = wrap(c.fz("Unit", u_ref, "factors"), T_FMAP)
    return z3.ForAll([i], z3.Implies(z3.And(i >= 0, i < NDIM),
                                     z3.Select(ITup.iarr(c.fz("Dimension", d, "exponents")), i) == dimOf(F.val, i)))


def wf_parts(c, u):
    """per-unit parts of I_U, named"""
    F = wrap(c.fz("Unit", u, "factors"), T_FMAP)
    p, d = c.fz("Unit", u, "prefix"), c.fz("Unit", u, "dimension")
    yield "prefix-live", z3.And(c.alivez("Prefix", p), c.fz("Prefix", p, "_initialized"))
    yield "dimension-live", z3.And(c.alivez("Dimension", d), c.fz("Dimension", d, "_initialized"))
    for nm, f in NF(c, F):
        yield "NF-" + nm, f
    yield "C01-dimension-is-fold", inv_dim_at(c, u)


def wf_unit_at(c, u):
    return z3.And([f for _, f in wf_parts(c, u)])


def I_U(c):
    """Unit intern table + representation invariant + C01 (Inv_dim) for every unit."""
    T = c.g("Unit._known")
    ks = sort_of(T_UKEY)
    k0, k1 = ks.accessor(0, 0), ks.accessor(0, 1)
    k = z3.Const("k!IU", ks)
    u = z3.Const("u!IU", Ref("Unit"))
    live = lambda r: z3.And(c.alivez("Unit", r), c.fz("Unit", r, "_initialized"))
    yield "I_U.entries", z3.ForAll([k], z3.Implies(
        z3.Select(T.dom, k),
        z3.And(live(z3.Select(T.val, k)), c.fz("Unit", z3.Select(T.val, k), "prefix") == k0(k),
               c.fz("Unit", z3.Select(T.val, k), "factors") == k1(k))))
    yield "I_U.canonical", z3.ForAll([u], z3.Implies(
        live(u),
        z3.And(z3.Select(T.dom, ukey(c.fz("Unit", u, "prefix"), c.fz("Unit", u, "factors"))),
               z3.Select(T.val, ukey(c.fz("Unit", u, "prefix"), c.fz("Unit", u, "factors"))) == u)))
    for nm, f in wf_parts(c, u):
        yield "I_U." + nm, z3.ForAll([u], z3.Implies(live(u), f))
    i = z3.Int("i!one")
    yield "I_U.one", z3.And(live(One.ref), c.f(One, "prefix") == IdentityPrefix.ref, c.f(One, "factors") == single_map(One.ref),
                            c.f(One, "dimension") == Number.ref, z3.ForAll([i], bdexp(One.ref, i) == 0))


INVARIANTS["I_U"] = I_U


# ---------------------------------------------------------------------------------------------
# sizes (C04-C06, C11): ghost real-valued size of a unit, multiplicative in the prefix

bsize = z3.Function("bsize", sort_of(T_FMAP), R)  # size of the unprefixed product of base units (ghost, > 0)
# ghost: the planner finds no conversion between units with these factor maps (the prefix never matters:
# convert() strips it first).  Deterministic given the declared equivalences (C08).
noconv = z3.Function("noconv", sort_of(T_FMAP), sort_of(T_FMAP), B)
offset_free_m = z3.Function("offset_free_m", sort_of(T_FMAP), B)  # ghost: no factor is a scale with a zero offset (C10)


def pval_z(c, p_ref):
    return rpowr(z3.ToReal(c.fz("Prefix", p_ref, "base")), Num.nval(c.fz("Prefix", p_ref, "exponent")))


def size(c, u_ref):
    """size(u) = value(prefix) * size of the unprefixed factor product"""
    return pval_z(c, c.fz("Unit", u_ref, "prefix")) * bsize(c.fz("Unit", u_ref, "factors"))


def size_axioms():
    m = z3.Const("m!sz", sort_of(T_FMAP))
    b, e = z3.Real("b!sz"), z3.Real("e!sz")
    return [z3.ForAll([m], bsize(m) > 0), z3.ForAll([m], z3.Not(noconv(m, m))),
            z3.ForAll([b, e], z3.Implies(b > 0, rpowr(b, e) > 0)),
            z3.ForAll([b], rpowr(b, z3.RealVal(0)) == 1)]
