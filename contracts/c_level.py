"""Contracts for logarithmic units and levels (C18).  log and ** are the uninterpreted real
functions rlog / rpowr with their defining axioms (A4): the logarithmic definition is proved as an
identity of real analysis, float rounding is bounded only."""
import z3
from pyvc.sorts import *  # noqa
from pyvc.verify import Contract
from pyvc.ops import to_num, rlog, rpowr
from .model import *  # noqa
from .c_unit import wf_unit, live, _UnitBin
from .c_quantity import wf_qty, mval, mkind, qunit, qval

CONTRACTS = {}
T_LU, T_LEVEL, T_LOG = ("obj", "LogarithmicUnit"), ("obj", "Level"), ("obj", "Logarithm")
MODS = _UnitBin.modifies + ("new:Quantity", "new:Level")


def contract(cls):
    CONTRACTS[cls.qual] = cls()
    return cls


def lbase(c, lu):
    return Num.nval(c.fz("Logarithm", c.f(lu, "logarithm"), "base"))


def lprefix(c, lu):
    return c.fz("Logarithm", c.f(lu, "logarithm"), "prefix")


def lref(c, lu):
    return VObj("Quantity", c.f(lu, "reference"))


def k_of(c, lu):
    """1 for power, 2 for root-power reference dimensions"""
    RP = c.g("ROOT_POWER_DIMENSIONS")
    d = c.fz("Unit", c.f(lref(c, lu), "unit"), "dimension")
    return z3.If(z3.Select(RP.dom, d), z3.RealVal(2), z3.RealVal(1))


def wf_lu(c, lu):
    ref = lref(c, lu)
    p = lprefix(c, lu)
    return z3.And(c.alive(lu), c.alivez("Logarithm", c.f(lu, "logarithm")), wf_qty(c, ref), mval(c, ref) > 0, mkind(c, ref) != K_DEC,
                  lbase(c, lu) > 1, Num.nkind(c.fz("Logarithm", c.f(lu, "logarithm"), "base")) != K_DEC,
                  c.alivez("Prefix", p), c.fz("Prefix", p, "_initialized"), pval_z(c, p) > 0, Num.nkind(c.fz("Prefix", p, "exponent")) != K_DEC,
                  offset_free_m(c.fz("Unit", c.f(ref, "unit"), "factors")),
                  pval_z(c, c.fz("Unit", c.f(ref, "unit"), "prefix")) > 0)


@contract
class PowerRatio(Contract):
    qual = "measured.LogarithmicUnit.power_ratio"
    props = ("C18",)
    ret = ("int",)

    def requires(self, c, a):
        yield "alive", c.alive(a.self)

    def ensures(self, c, a, r):
        yield "one-or-two", z3.ToReal(r.z) == k_of(c, a.self)


@contract
class LULevel(Contract):
    """LogarithmicUnit.level(q): (k / prefix) * log_base(q / reference)"""
    qual = "measured.LogarithmicUnit.level"
    props = ("C18",)
    inv = ("I_D", "I_P", "I_U")
    modifies = MODS
    ret = T_LEVEL

    def requires(self, c, a):
        yield "wf-self", wf_lu(c, a.self)
        yield "wf-quantity", z3.And(wf_qty(c, a.quantity), mval(c, a.quantity) > 0, mkind(c, a.quantity) != K_DEC,
                                    offset_free_m(c.fz("Unit", c.f(a.quantity, "unit"), "factors")),
                                    pval_z(c, c.fz("Unit", c.f(a.quantity, "unit"), "prefix")) > 0)

    def raises(self, c, a):
        ref = lref(c, a.self)
        yield "ConversionNotFound", z3.Or(c.fz("Unit", c.f(a.quantity, "unit"), "dimension") != c.fz("Unit", c.f(ref, "unit"), "dimension"),
                                          noconv(c.fz("Unit", c.f(a.quantity, "unit"), "factors"), c.fz("Unit", c.f(ref, "unit"), "factors"))), "not-convertible"

    def ensures(self, c, a, r):
        o = c.old
        ref = lref(o, a.self)
        yield "fresh-level", z3.And(c.alive(r), z3.Not(o.alive(r)))
        yield "unit", c.f(r, "unit") == a.self.ref
        ratio = qval(o, a.quantity) / qval(o, ref)
        yield "logarithmic-definition", Num.nval(c.f(r, "magnitude")) == (k_of(o, a.self) / pval_z(o, lprefix(o, a.self))) * (rlog(ratio) / rlog(lbase(o, a.self)))


@contract
class LevelQuantify(Contract):
    """Level.quantify(): base ** (magnitude * prefix / k) times the reference"""
    qual = "measured.Level.quantify"
    props = ("C18",)
    inv = ("I_D", "I_P", "I_U")
    modifies = MODS
    ret = T_QTY

    def requires(self, c, a):
        lu = VObj("LogarithmicUnit", c.f(a.self, "unit"))
        yield "wf-unit", wf_lu(c, lu)
        yield "alive", c.alive(a.self)  # int, float and Decimal level magnitudes

    def ensures(self, c, a, r):
        o = c.old
        lu = VObj("LogarithmicUnit", o.f(a.self, "unit"))
        ref = lref(o, lu)
        yield "fresh-quantity", z3.And(c.alive(r), z3.Not(o.alive(r)))
        yield "reference-unit", c.f(r, "unit") == o.f(ref, "unit")
        e = Num.nval(o.f(a.self, "magnitude")) * pval_z(o, lprefix(o, lu)) / k_of(o, lu)
        yield "exponential-definition", mval(c, r) == rpowr(lbase(o, lu), e) * mval(o, ref)
