"""Contracts for measured.conversions (C04, C05, C08, C10): declaring equivalences.
The planner (_plan_conversion and helpers) is NOT under contract: see DESIGN.md (bounded)."""
import z3
from pyvc.sorts import *  # noqa
from pyvc.verify import Contract
from .model import *  # noqa
from .c_unit import wf_unit, live, _UnitBin
from .c_quantity import wf_qty, mval, mkind, qunit, qval

CONTRACTS = {}
U = Ref("Unit")


def contract(cls):
    CONTRACTS[cls.qual] = cls()
    return cls


def ratio(c, x, y):
    R = c.g("conversions._ratios")
    return Num.nval(z3.Select(z3.Select(R.val, x), y))


def has_ratio(c, x, y):
    R = c.g("conversions._ratios")
    return z3.Select(z3.Select(R.dom, x), y)


def WF_R(c):
    """every stored ratio is the quotient of the ghost sizes: 1 x = ratio * y"""
    x, y = z3.Consts("x!wr y!wr", U)
    yield "WF_R.sizes", z3.ForAll([x, y], z3.Implies(has_ratio(c, x, y), ratio(c, x, y) * size(c, y) == size(c, x)))
    yield "WF_R.symmetric", z3.ForAll([x, y], z3.Implies(has_ratio(c, x, y), has_ratio(c, y, x)))


INVARIANTS["WF_R"] = WF_R


def unprefixed_unit(c, o, u_ref):
    """the unit object (in state c) with the identity prefix and the factors of u (read in state o)"""
    T = c.g("Unit._known")
    k = ukey(IdentityPrefix.ref, o.fz("Unit", u_ref, "factors"))
    return z3.Select(T.val, k), z3.Select(T.dom, k)


@contract
class Equate(Contract):
    """equate(a, b): 1 unit(a') = (mb'/ma') unit(b') and the reciprocal, for the unprefixed
    quantities a', b'; nothing else changes; memoised plans and paths are forgotten (C08);
    a declaration that is true of the ghost sizes keeps WF_R."""
    qual = "measured.conversions.equate"
    props = ("C04", "C05", "C08")
    inv = ("I_D", "I_P", "I_U")
    modifies = _UnitBin.modifies + ("new:Quantity", "conversions._ratios")
    ret = ("none",)

    def requires(self, c, a):
        yield "wf-a", wf_qty(c, a.a)
        yield "wf-b", wf_qty(c, a.b)
        yield "nonzero-magnitudes", z3.And(mval(c, a.a) != 0, mval(c, a.b) != 0)
        yield "no-decimal-float-mix", z3.Or(mkind(c, a.a) == mkind(c, a.b), z3.And(mkind(c, a.a) != K_DEC, mkind(c, a.b) != K_DEC))
        pa, pb = c.fz("Unit", c.f(a.a, "unit"), "prefix"), c.fz("Unit", c.f(a.b, "unit"), "prefix")
        yield "positive-prefix-values", z3.And(pval_z(c, pa) > 0, pval_z(c, pb) > 0,
                                               Num.nkind(c.fz("Prefix", pa, "exponent")) != K_DEC, Num.nkind(c.fz("Prefix", pb, "exponent")) != K_DEC)
        # One.equals(1 * One) is the only self-equation the library makes
        yield "self-equation-is-trivial", z3.Implies(c.fz("Unit", c.f(a.a, "unit"), "factors") == c.fz("Unit", c.f(a.b, "unit"), "factors"),
                                                     mval(c, a.a) * pval_z(c, pa) == mval(c, a.b) * pval_z(c, pb))

    def raises(self, c, a):
        yield "ValueError", z3.And(c.f(a.a, "unit") == c.f(a.b, "unit"), c.f(a.a, "unit") != One.ref), "same-unit"

    def exc_ensures(self, c, a, exc):
        R, R0 = c.g("conversions._ratios"), c.old.g("conversions._ratios")
        yield "ratios-unchanged", z3.And(R.dom == R0.dom, R.val == R0.val)

    def ensures(self, c, a, r):
        o = c.old
        ua, _ = unprefixed_unit(c, o, o.f(a.a, "unit"))
        ub, _ = unprefixed_unit(c, o, o.f(a.b, "unit"))
        pa = pval_z(o, o.fz("Unit", o.f(a.a, "unit"), "prefix"))
        pb = pval_z(o, o.fz("Unit", o.f(a.b, "unit"), "prefix"))
        ma, mb = mval(o, a.a) * pa, mval(o, a.b) * pb
        yield "forward", z3.And(has_ratio(c, ua, ub), ratio(c, ua, ub) * ma == mb)
        yield "backward", z3.And(has_ratio(c, ub, ua), ratio(c, ub, ua) * mb == ma)
        R, R0 = c.g("conversions._ratios"), o.g("conversions._ratios")
        x, y = z3.Consts("x!eq y!eq", U)
        touched = lambda p, q: z3.Or(z3.And(p == ua, q == ub), z3.And(p == ub, q == ua))
        yield "others-unchanged", z3.ForAll([x, y], z3.Implies(z3.Not(touched(x, y)), z3.And(
            z3.Select(z3.Select(R.dom, x), y) == z3.Select(z3.Select(R0.dom, x), y),
            z3.Select(z3.Select(R.val, x), y) == z3.Select(z3.Select(R0.val, x), y))))
        yield "memo-forgotten", z3.BoolVal({"measured.conversions._plan_conversion", "measured.conversions._find_path"} <= set(c.st.cleared))

    def ghost(self, c, a, r):
        return []


# not registered: the solver does not complete inv:WF_R.sizes within the budget (non-linear real
# arithmetic over heap reads); WF_R is therefore an *assumed* invariant wherever it is used
class EquateKeepsWFR(Equate):
    """same function, second contract: a declaration that is true of the ghost sizes preserves WF_R"""
    qual = "measured.conversions.equate#WF_R"
    target = "measured.conversions.equate"
    inv = ("I_D", "I_P", "I_U", "WF_R")

    def requires(self, c, a):
        yield from Equate.requires(self, c, a)
        yield "declaration-true-of-sizes", qval(c, a.a) == qval(c, a.b)

    def ensures(self, c, a, r):
        return []


@contract
class Translate(Contract):
    """translate(scale, zero): scale and zero.unit get ratio 1 both ways and offsets -/+ zero.magnitude"""
    qual = "measured.conversions.translate"
    props = ("C10", "C08", "C19")  # C19: Dimension.scale registers the unit first, so translate must not fail on a well-formed zero point
    modifies = ("conversions._ratios", "conversions._offsets")
    ret = ("none",)

    def requires(self, c, a):
        yield "alive", z3.And(c.alive(a.scale), c.alive(a.zero))

    def raises(self, c, a):
        yield "ValueError", a.scale.ref == c.f(a.zero, "unit"), "same-unit"

    def ensures(self, c, a, r):
        o = c.old
        deg = o.f(a.zero, "unit")
        off = Num.nval(o.f(a.zero, "magnitude"))
        O = c.g("conversions._offsets")
        oval = lambda x, y: Num.nval(z3.Select(z3.Select(O.val, x), y))
        yield "ratios-one", z3.And(has_ratio(c, deg, a.scale.ref), has_ratio(c, a.scale.ref, deg), ratio(c, deg, a.scale.ref) == 1, ratio(c, a.scale.ref, deg) == 1)
        yield "offsets", z3.And(z3.Select(z3.Select(O.dom, deg), a.scale.ref), z3.Select(z3.Select(O.dom, a.scale.ref), deg),
                                oval(deg, a.scale.ref) == -off, oval(a.scale.ref, deg) == off)
        yield "memo-forgotten", z3.BoolVal({"measured.conversions._plan_conversion", "measured.conversions._find_path"} <= set(c.st.cleared))


# ---------------------------------------------------------------------------------------------
# convert: applies the plan (C04, C05, C10).  Ghost folds over sequences of unknown length:
#   APk(path, k, e, x)  value after the first k hops of `path` applied to x with plan exponent e
#   APLk(plan, k, x)    value after the first k plan entries
# with the unfolding equations below (instances are supplied by the loop specs) and the affine
# lemma  APLk(plan, k, x) = APLA(plan, k) * x + APLB(plan, k)  (lemmas/Affine.lean).

from pyvc.ops import rpow  # noqa: E402
from .c_unit import Loop  # noqa: E402

HOP = ("tup", [("num",), ("num",), T_UNIT])
ENTRY = ("tup", [("num",), ("seq", HOP), ("int",)])
PLAN_T = ("seq", ENTRY)
_hop, _entry, _path_s, _plan_s = sort_of(HOP), sort_of(ENTRY), sort_of(("seq", HOP)), sort_of(PLAN_T)
hop_scale = lambda h: Num.nval(_hop.accessor(0, 0)(h))
hop_offset = lambda h: Num.nval(_hop.accessor(0, 1)(h))
ent_ratio = lambda en: Num.nval(_entry.accessor(0, 0)(en))
ent_path = lambda en: _entry.accessor(0, 1)(en)
ent_exp = lambda en: _entry.accessor(0, 2)(en)

APk = z3.Function("APk", _path_s, I, I, R, R)
APLk = z3.Function("APLk", _plan_s, I, R, R)
APLA = z3.Function("APLA", _plan_s, I, R)
APLB = z3.Function("APLB", _plan_s, I, R)
PLAN = z3.Function("PLAN", U, U, _plan_s)  # ghost: the plan the (memoised, deterministic) planner returns


def AP(path, e, x):
    return APk(path, z3.Length(path), e, x)


def APL(plan, x):
    return APLk(plan, z3.Length(plan), x)


def wf_plan(plan):
    """every ratio and every hop scale of the plan is a positive number (ratios come from _div of
    non-zero magnitudes; the planner only multiplies and inverts them)"""
    k, j = z3.Int("k!w0"), z3.Int("j!w0")
    return z3.ForAll([k], z3.Implies(z3.And(k >= 0, k < z3.Length(plan)), z3.And(
        ent_ratio(plan[k]) > 0, Num.nkind(_entry.accessor(0, 0)(plan[k])) != K_DEC,
        z3.ForAll([j], z3.Implies(z3.And(j >= 0, j < z3.Length(ent_path(plan[k]))), z3.And(
            hop_scale(ent_path(plan[k])[j]) > 0, Num.nkind(_hop.accessor(0, 0)(ent_path(plan[k])[j])) != K_DEC,
            Num.nkind(_hop.accessor(0, 1)(ent_path(plan[k])[j])) != K_DEC))))))


@contract
class PlanConversion(Contract):
    """_plan_conversion: TRUSTED.  The heuristic planner is outside the verifier's reach; this contract is
    the assumption every conversion proof rests on, and the bounded stand-ins of C04/C05 test exactly it:
    the returned plan is well formed and, for offset-free units, applying it multiplies by
    size(start without prefix) / size(end)."""
    qual = "measured.conversions._plan_conversion"
    props = ("C04", "C05", "C10")
    trusted = True
    inv = ("I_D", "I_P", "I_U")
    modifies = _UnitBin.modifies + ("new:Quantity",)
    ret = PLAN_T

    def requires(self, c, a):
        yield "wf-start", wf_unit(c, a.start)
        yield "wf-end", wf_unit(c, a.end)

    def raises(self, c, a):
        yield "ConversionNotFound", noconv(c.f(a.start, "factors"), c.f(a.end, "factors")), "no-path"

    def ensures(self, c, a, r):
        o = c.old
        n = z3.Length(r.z)
        yield "is-the-plan", r.z == PLAN(a.start.ref, a.end.ref)
        yield "well-formed", wf_plan(r.z)
        offs = z3.And(offset_free_m(o.f(a.start, "factors")), offset_free_m(o.f(a.end, "factors")))
        yield "planner-assumption", z3.Implies(offs, z3.And(APLA(r.z, n) * size(o, a.end.ref) == bsize(o.f(a.start, "factors")), APLB(r.z, n) == 0))
        for t in ("Unit._known", "Prefix._known", "Dimension._known"):
            yield "table-grows-" + t, same_table_grows(c, t)
        u = z3.Const("u!pc", U)
        yield "units-unchanged", z3.ForAll([u], z3.Implies(o.alivez("Unit", u), z3.And(
            c.fz("Unit", u, "prefix") == o.fz("Unit", u, "prefix"), c.fz("Unit", u, "factors") == o.fz("Unit", u, "factors"))))


def _roles(c):
    """loop roles (pyvc.verify._loop_roles): the specs below never name a local variable of convert"""
    info = c.old.loop
    if len(info.carried) != 1:
        raise Unsupported("convert loop: expected exactly one carried variable, found %s" % (info.carried,))
    return info, info.carried[0]


class ConvertOuter(Loop):
    """for <entry> in plan: the carried magnitude == APLk(plan, i, magnitude at loop entry)"""

    def inv(self, c, e, i):
        info, acc = _roles(c)
        m0 = info.entry_env[acc]
        yield "applied-prefix-of-plan", to_real(getattr(e, acc)) == APLk(info.seq.z, i, to_real(m0))
        yield "decimal-kept", z3.Implies(kind_of(m0) == K_DEC, kind_of(getattr(e, acc)) == K_DEC)

    def lemmas(self, c, e, i, _k):
        info, acc = _roles(c)
        plan, m0 = info.seq.z, to_real(info.entry_env[acc])
        yield APLk(plan, z3.IntVal(0), m0) == m0
        # affine lemma (lemmas/Affine.lean): applying k plan entries is x |-> A*x + B
        yield APLk(plan, i, m0) == APLA(plan, i) * m0 + APLB(plan, i)
        yield z3.Implies(z3.And(i >= 0, i < z3.Length(plan)),
                         APLk(plan, i + 1, m0) == AP(ent_path(plan[i]), ent_exp(plan[i]), APLk(plan, i, m0) * ent_ratio(plan[i])))


class ConvertInner(Loop):
    """for <hop> in path: the carried magnitude == APk(path, j, exponent of the enclosing entry, value at loop entry)"""

    def _exp(self, info, e):
        ints = [n for n in (info.outer[-1] if info.outer else []) if isinstance(info.entry_env.get(n), VInt)]
        if len(ints) != 1:
            raise Unsupported("convert inner loop: the enclosing loop should bind exactly one int (the exponent)")
        return info.entry_env[ints[0]].z

    def inv(self, c, e, j):
        info, acc = _roles(c)
        m_in = info.entry_env[acc]
        yield "applied-prefix-of-path", to_real(getattr(e, acc)) == APk(info.seq.z, j, self._exp(info, e), to_real(m_in))
        yield "decimal-kept", z3.Implies(kind_of(m_in) == K_DEC, kind_of(getattr(e, acc)) == K_DEC)

    def lemmas(self, c, e, j, _k):
        info, acc = _roles(c)
        m_in = to_real(info.entry_env[acc])
        path, ex = info.seq.z, self._exp(info, e)
        yield APk(path, z3.IntVal(0), ex, m_in) == m_in
        yield z3.Implies(z3.And(j >= 0, j < z3.Length(path)),
                         APk(path, j + 1, ex, m_in) == APk(path, j, ex, m_in) * rpow(hop_scale(path[j]), ex) + hop_offset(path[j]))


def to_real(v):
    from pyvc.ops import to_num
    return to_num(v).val


def kind_of(v):
    from pyvc.ops import to_num
    return to_num(v).kind


LOOPS = {("measured.conversions.convert", 0): ConvertOuter(), ("measured.conversions.convert", 1): ConvertInner()}
