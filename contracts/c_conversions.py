"""Contracts for measured.conversions (C04, C05, C08, C10): declaring equivalences.
The planner (_plan_conversion and helpers) is NOT under contract: see DESIGN.md (bounded)."""
import z3
from pyvc.sorts import *  # noqa
from pyvc.verify import Contract
from .model import *  # noqa
from .c_unit import wf_unit, live, _UnitBin
from .c_quantity import wf_qty, mval, mkind, qunit, qval

CONTRACTS = {}
U = Ref("Unit")


def contract(cls):
    CONTRACTS[cls.qual] = cls()
    return cls


def ratio(c, x, y):
    R = c.g("conversions._ratios")
    return Num.nval(z3.Select(z3.Select(R.val, x), y))


def has_ratio(c, x, y):
    R = c.g("conversions._ratios")
    return z3.Select(z3.Select(R.dom, x), y)


def WF_R(c):
    """every stored ratio is the quotient of the ghost sizes: 1 x = ratio * y"""
    x, y = z3.Consts("x!wr y!wr", U)
    yield "WF_R.sizes", z3.ForAll([x, y], z3.Implies(has_ratio(c, x, y), ratio(c, x, y) * size(c, y) == size(c, x)))
    yield "WF_R.symmetric", z3.ForAll([x, y], z3.Implies(has_ratio(c, x, y), has_ratio(c, y, x)))


INVARIANTS["WF_R"] = WF_R


def unprefixed_unit(c, o, u_ref):
    """the unit object (in state c) with the identity prefix and the factors of u (read in state o)"""
    T = c.g("Unit._known")
    k = ukey(IdentityPrefix.ref, o.fz("Unit", u_ref, "factors"))
    return z3.Select(T.val, k), z3.Select(T.dom, k)


@contract
class Equate(Contract):
    """equate(a, b): 1 unit(a') = (mb'/ma') unit(b') and the reciprocal, for the unprefixed
    quantities a', b'; nothing else changes; memoised plans and paths are forgotten (C08);
    a declaration that is true of the ghost sizes keeps WF_R."""
    qual = "measured.conversions.equate"
    props = ("C04", "C05", "C08")
    inv = ("I_D", "I_P", "I_U")
    modifies = _UnitBin.modifies + ("new:Quantity", "conversions._ratios")
    ret = ("none",)

    def requires(self, c, a):
        yield "wf-a", wf_qty(c, a.a)
        yield "wf-b", wf_qty(c, a.b)
        yield "nonzero-magnitudes", z3.And(mval(c, a.a) != 0, mval(c, a.b) != 0)
        yield "no-decimal-float-mix", z3.Or(mkind(c, a.a) == mkind(c, a.b), z3.And(mkind(c, a.a) != K_DEC, mkind(c, a.b) != K_DEC))
        pa, pb = c.fz("Unit", c.f(a.a, "unit"), "prefix"), c.fz("Unit", c.f(a.b, "unit"), "prefix")
        yield "positive-prefix-values", z3.And(pval_z(c, pa) > 0, pval_z(c, pb) > 0,
                                               Num.nkind(c.fz("Prefix", pa, "exponent")) != K_DEC, Num.nkind(c.fz("Prefix", pb, "exponent")) != K_DEC)
        # One.equals(1 * One) is the only self-equation the library makes
        yield "self-equation-is-trivial", z3.Implies(c.fz("Unit", c.f(a.a, "unit"), "factors") == c.fz("Unit", c.f(a.b, "unit"), "factors"),
                                                     mval(c, a.a) * pval_z(c, pa) == mval(c, a.b) * pval_z(c, pb))

    def raises(self, c, a):
        yield "ValueError", z3.And(c.f(a.a, "unit") == c.f(a.b, "unit"), c.f(a.a, "unit") != One.ref), "same-unit"

    def exc_ensures(self, c, a, exc):
        R, R0 = c.g("conversions._ratios"), c.old.g("conversions._ratios")
        yield "ratios-unchanged", z3.And(R.dom == R0.dom, R.val == R0.val)

    def ensures(self, c, a, r):
        o = c.old
        ua, _ = unprefixed_unit(c, o, o.f(a.a, "unit"))
        ub, _ = unprefixed_unit(c, o, o.f(a.b, "unit"))
        pa = pval_z(o, o.fz("Unit", o.f(a.a, "unit"), "prefix"))
        pb = pval_z(o, o.fz("Unit", o.f(a.b, "unit"), "prefix"))
        ma, mb = mval(o, a.a) * pa, mval(o, a.b) * pb
        yield "forward", z3.And(has_ratio(c, ua, ub), ratio(c, ua, ub) * ma == mb)
        yield "backward", z3.And(has_ratio(c, ub, ua), ratio(c, ub, ua) * mb == ma)
        R, R0 = c.g("conversions._ratios"), o.g("conversions._ratios")
        x, y = z3.Consts("x!eq y!eq", U)
        touched = lambda p, q: z3.Or(z3.And(p == ua, q == ub), z3.And(p == ub, q == ua))
        yield "others-unchanged", z3.ForAll([x, y], z3.Implies(z3.Not(touched(x, y)), z3.And(
            z3.Select(z3.Select(R.dom, x), y) == z3.Select(z3.Select(R0.dom, x), y),
            z3.Select(z3.Select(R.val, x), y) == z3.Select(z3.Select(R0.val, x), y))))
        yield "memo-forgotten", z3.BoolVal({"measured.conversions._plan_conversion", "measured.conversions._find_path"} <= set(c.st.cleared))

    def ghost(self, c, a, r):
        return []


# not registered: the solver does not complete inv:WF_R.sizes within the budget (non-linear real
# arithmetic over heap reads); WF_R is therefore an *assumed* invariant wherever it is used
class EquateKeepsWFR(Equate):
    """same function, second contract: a declaration that is true of the ghost sizes preserves WF_R"""
    qual = "measured.conversions.equate#WF_R"
    target = "measured.conversions.equate"
    inv = ("I_D", "I_P", "I_U", "WF_R")

    def requires(self, c, a):
        yield from Equate.requires(self, c, a)
        yield "declaration-true-of-sizes", qval(c, a.a) == qval(c, a.b)

    def ensures(self, c, a, r):
        return []


@contract
class Translate(Contract):
    """translate(scale, zero): scale and zero.unit get ratio 1 both ways and offsets -/+ zero.magnitude"""
    qual = "measured.conversions.translate"
    props = ("C10", "C08")
    modifies = ("conversions._ratios", "conversions._offsets")
    ret = ("none",)

    def requires(self, c, a):
        yield "alive", z3.And(c.alive(a.scale), c.alive(a.zero))

    def raises(self, c, a):
        yield "ValueError", a.scale.ref == c.f(a.zero, "unit"), "same-unit"

    def ensures(self, c, a, r):
        o = c.old
        deg = o.f(a.zero, "unit")
        off = Num.nval(o.f(a.zero, "magnitude"))
        O = c.g("conversions._offsets")
        oval = lambda x, y: Num.nval(z3.Select(z3.Select(O.val, x), y))
        yield "ratios-one", z3.And(has_ratio(c, deg, a.scale.ref), has_ratio(c, a.scale.ref, deg), ratio(c, deg, a.scale.ref) == 1, ratio(c, a.scale.ref, deg) == 1)
        yield "offsets", z3.And(z3.Select(z3.Select(O.dom, deg), a.scale.ref), z3.Select(z3.Select(O.dom, a.scale.ref), deg),
                                oval(deg, a.scale.ref) == -off, oval(a.scale.ref, deg) == off)
        yield "memo-forgotten", z3.BoolVal({"measured.conversions._plan_conversion", "measured.conversions._find_path"} <= set(c.st.cleared))
