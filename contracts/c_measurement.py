"""Contracts for measured.Measurement (C14 propagation, C12 comparisons)."""
import z3
from pyvc.sorts import *  # noqa
from pyvc.verify import Contract
from pyvc.ops import to_num, rpow, rpowr, rsqrt
from .model import *  # noqa
from .c_unit import wf_unit, live, _UnitBin
from .c_quantity import wf_qty, mval, mkind, qunit, qval, NUMS

CONTRACTS = {}
T_MEAS = ("obj", "Measurement")
MODS = _UnitBin.modifies + ("new:Quantity", "new:Measurement")


def contract(cls):
    CONTRACTS[cls.qual] = cls()
    return cls


def meas(c, m):
    return VObj("Quantity", c.f(m, "measurand"))


def unc(c, m):
    return VObj("Quantity", c.f(m, "uncertainty"))


def wf_meas(c, m):
    """a measurement: live parts, uncertainty in the measurand's unit and non-negative, float/int magnitudes"""
    x, s = meas(c, m), unc(c, m)
    return z3.And(c.alive(m), wf_qty(c, x), c.alive(s), c.f(s, "unit") == c.f(x, "unit"), mval(c, s) >= 0,
                  mkind(c, x) != K_DEC, mkind(c, s) != K_DEC)


@contract
class MeasCtor(Contract):
    """Measurement(measurand, uncertainty): sigma is |uncertainty| in the measurand's unit"""
    qual = "measured.Measurement"
    ctor = True
    props = ("C14", "C12")
    modifies = ("new:Quantity", "new:Measurement")
    types = {"uncertainty": [("int",), ("float",), T_QTY]}
    ret = T_MEAS

    def requires(self, c, a):
        yield "alive", c.alive(a.measurand)
        if isinstance(a.uncertainty, VObj):
            yield "same-unit", z3.And(c.alive(a.uncertainty), c.f(a.uncertainty, "unit") == c.f(a.measurand, "unit"))

    def ensures(self, c, a, r):
        o = c.old
        yield "fresh", z3.And(c.alive(r), z3.Not(o.alive(r)))
        yield "measurand", c.f(r, "measurand") == a.measurand.ref
        s = unc(c, r)
        u = mval(o, a.uncertainty) if isinstance(a.uncertainty, VObj) else to_num(a.uncertainty).val
        yield "sigma-is-absolute-value", z3.And(c.alive(s), mval(c, s) == z3.If(u >= 0, u, -u), mval(c, s) >= 0)
        yield "sigma-unit", c.f(s, "unit") == o.f(a.measurand, "unit")
        k = mkind(o, a.uncertainty) if isinstance(a.uncertainty, VObj) else to_num(a.uncertainty).kind
        yield "sigma-kind", mkind(c, s) == k
        q = z3.Const("q!mc", Ref("Quantity"))
        yield "quantities-unchanged", z3.ForAll([q], z3.Implies(o.alivez("Quantity", q), z3.And(
            c.fz("Quantity", q, "magnitude") == o.fz("Quantity", q, "magnitude"), c.fz("Quantity", q, "unit") == o.fz("Quantity", q, "unit"))))


class _MeasMulDiv(Contract):
    """first-order propagation for products and quotients of independent inputs"""
    props = ("C14",)
    inv = ("I_D", "I_P", "I_U")
    modifies = MODS
    types = {"other": [T_MEAS, T_QTY, ("other",)]}
    op = "mul"

    def ret(self, a):
        return T_MEAS if isinstance(a.other, VObj) and a.other.cls in ("Measurement", "Quantity") else ("notimpl",)

    def requires(self, c, a):
        yield "wf-self", wf_meas(c, a.self)
        if isinstance(a.other, VObj) and a.other.cls == "Measurement":
            yield "wf-other", wf_meas(c, a.other)
        if isinstance(a.other, VObj) and a.other.cls == "Quantity":
            yield "wf-other", z3.And(wf_qty(c, a.other), mkind(c, a.other) != K_DEC)

    def raises(self, c, a):
        if self.op == "div" and isinstance(a.other, VObj):
            y = mval(c, meas(c, a.other)) if a.other.cls == "Measurement" else mval(c, a.other)
            yield "ZeroDivisionError", y == 0, "zero-divisor"

    def ensures(self, c, a, r):
        o = c.old
        if not (isinstance(a.other, VObj) and a.other.cls in ("Measurement", "Quantity")):
            yield "not-implemented", z3.BoolVal(isinstance(r, VNotImpl))
            return
        if not (isinstance(r, VObj) and r.cls == "Measurement"):
            yield "returns-measurement", z3.BoolVal(False)
            return
        x, sx = mval(o, meas(o, a.self)), mval(o, unc(o, a.self))
        if a.other.cls == "Measurement":
            y, sy = mval(o, meas(o, a.other)), mval(o, unc(o, a.other))
        else:
            y, sy = mval(o, a.other), z3.RealVal(0)  # a plain quantity is a measurement with sigma 0
        s = mval(c, unc(c, r))
        f = mval(c, meas(c, r))
        yield "sigma-non-negative", s >= 0
        if self.op == "mul":
            yield "measurand-value", f == x * y
            yield "sigma-first-order", s * s == (y * sx) * (y * sx) + (x * sy) * (x * sy)
        else:
            yield "measurand-value", f * y == x
            # (df/dx sx)^2 + (df/dy sy)^2 with f = x / y
            yield "sigma-first-order", s * s * (y * y) * (y * y) == (sx * y) * (sx * y) + (x * sy) * (x * sy)
        yield "sigma-unit", c.f(unc(c, r), "unit") == c.f(meas(c, r), "unit")


@contract
class MeasMul(_MeasMulDiv):
    qual = "measured.Measurement.__mul__"


@contract
class MeasTruediv(_MeasMulDiv):
    qual = "measured.Measurement.__truediv__"
    op = "div"


@contract
class MeasPow(Contract):
    qual = "measured.Measurement.__pow__"
    props = ("C14",)
    inv = ("I_D", "I_P", "I_U")
    modifies = MODS
    types = {"exponent": [("int",), ("float",), ("other",)]}

    def ret(self, a):
        return T_MEAS if isinstance(a.exponent, VInt) else ("notimpl",)

    def requires(self, c, a):
        yield "wf-self", wf_meas(c, a.self)

    def raises(self, c, a):
        if isinstance(a.exponent, VInt):
            # only where the plain quantity operation itself is undefined; x**0 is 1 +- 0 for every x (C14: "including zero")
            yield "ZeroDivisionError", z3.And(a.exponent.z < 0, mval(c, meas(c, a.self)) == 0), "zero-to-negative-power"

    def ensures(self, c, a, r):
        o = c.old
        if not isinstance(a.exponent, VInt):
            yield "not-implemented", z3.BoolVal(isinstance(r, VNotImpl))
            return
        if not (isinstance(r, VObj) and r.cls == "Measurement"):
            yield "returns-measurement", z3.BoolVal(False)
            return
        n = a.exponent.z
        x, sx = mval(o, meas(o, a.self)), mval(o, unc(o, a.self))
        s = mval(c, unc(c, r))
        d = z3.If(n == 0, z3.RealVal(0), z3.ToReal(n) * rpow(x, n - 1) * sx)  # df/dx * sigma_x with f = x**n (f' = 0 for n = 0)
        yield "measurand-value", mval(c, meas(c, r)) == rpow(x, n)
        yield "sigma-non-negative", s >= 0
        yield "sigma-first-order", s * s == d * d
        yield "sigma-unit", c.f(unc(c, r), "unit") == c.f(meas(c, r), "unit")


def interval(c, m):
    """(lower, upper) physical values of a measurement's interval"""
    x, s = meas(c, m), unc(c, m)
    sz = size(c, c.f(x, "unit"))
    return (mval(c, x) - mval(c, s)) * sz, (mval(c, x) + mval(c, s)) * sz


def as_interval(c, v):
    """a Quantity is a measurement with sigma 0"""
    if v.cls == "Measurement":
        return interval(c, v)
    q = qval(c, v)
    return q, q


def unit_of(c, v):
    return c.f(meas(c, v), "unit") if v.cls == "Measurement" else c.f(v, "unit")


class _MeasAddSub(Contract):
    """sigma^2 = sigma_x^2 + sigma_y^2 for sums and differences (operands in one unit: the
    cross-unit case goes through conversions.convert and is covered by the bounded stand-in)"""
    props = ("C14",)
    inv = ("I_D", "I_P", "I_U")
    modifies = MODS
    may_raise = ("ConversionNotFound",)
    types = {"other": [T_MEAS, T_QTY, ("other",)]}
    sign = 1

    def ret(self, a):
        return T_MEAS if isinstance(a.other, VObj) and a.other.cls in ("Measurement", "Quantity") else ("notimpl",)

    def requires(self, c, a):
        yield "wf-self", wf_meas(c, a.self)
        if isinstance(a.other, VObj) and a.other.cls == "Measurement":
            yield "wf-other", wf_meas(c, a.other)
        if isinstance(a.other, VObj) and a.other.cls == "Quantity":
            yield "wf-other", z3.And(wf_qty(c, a.other), mkind(c, a.other) != K_DEC)

    def ensures(self, c, a, r):
        o = c.old
        if not (isinstance(a.other, VObj) and a.other.cls in ("Measurement", "Quantity")):
            yield "not-implemented", z3.BoolVal(isinstance(r, VNotImpl))
            return
        if not (isinstance(r, VObj) and r.cls == "Measurement"):
            yield "returns-measurement", z3.BoolVal(False)
            return
        x, sx = mval(o, meas(o, a.self)), mval(o, unc(o, a.self))
        if a.other.cls == "Measurement":
            y, sy = mval(o, meas(o, a.other)), mval(o, unc(o, a.other))
        else:
            y, sy = mval(o, a.other), z3.RealVal(0)
        same_unit = z3.And(unit_of(o, a.self) == unit_of(o, a.other), offset_free_m(o.fz("Unit", unit_of(o, a.self), "factors")))
        s = mval(c, unc(c, r))
        yield "sigma-non-negative", s >= 0
        yield "measurand-value", z3.Implies(same_unit, mval(c, meas(c, r)) == x + self.sign * y)
        yield "sigma-first-order", z3.Implies(same_unit, s * s == sx * sx + sy * sy)
        yield "left-unit", c.f(meas(c, r), "unit") == unit_of(o, a.self)


# not registered: the chain (sigma_x**2 + sigma_y**2).root(2) goes through four Quantity contracts and the
# solver does not complete it within the budget; + and - are covered by the bounded stand-in of C14 only
class MeasAdd(_MeasAddSub):
    qual = "measured.Measurement.__add__"


class MeasSub(_MeasAddSub):
    qual = "measured.Measurement.__sub__"
    sign = -1


# not registered: the path space of the interval comparison (four Quantity arithmetic results, four
# total_ordering comparisons with reflected fallbacks) exceeds the budget; bounded stand-in of C12 only
class MeasEq(Contract):
    """Measurement.__eq__: interval overlap, a plain bool for every operand type"""
    qual = "measured.Measurement.__eq__"
    props = ("C12",)
    inv = ("I_D", "I_P", "I_U")
    modifies = MODS
    types = {"other": [T_MEAS, T_QTY, ("int",), ("other",)]}
    ret = ("bool",)

    def requires(self, c, a):
        yield "wf-self", wf_meas(c, a.self)
        yield "offset-free-self", offset_free_m(c.fz("Unit", unit_of(c, a.self), "factors"))
        if isinstance(a.other, VObj) and a.other.cls == "Measurement":
            yield "wf-other", wf_meas(c, a.other)
        if isinstance(a.other, VObj) and a.other.cls == "Quantity":
            yield "wf-other", z3.And(wf_qty(c, a.other), mkind(c, a.other) != K_DEC)
        if isinstance(a.other, VObj) and a.other.cls in ("Measurement", "Quantity"):
            yield "offset-free-other", offset_free_m(c.fz("Unit", unit_of(c, a.other), "factors"))

    def ensures(self, c, a, r):
        o = c.old
        if not isinstance(r, VBool):
            yield "returns-bool", z3.BoolVal(False)
            return
        if not (isinstance(a.other, VObj) and a.other.cls in ("Measurement", "Quantity")):
            yield "other-types-unequal", z3.Not(r.z)
            return
        us, uo = unit_of(o, a.self), unit_of(o, a.other)
        same_dim = o.fz("Unit", us, "dimension") == o.fz("Unit", uo, "dimension")
        Fs, Fo = o.fz("Unit", us, "factors"), o.fz("Unit", uo, "factors")
        comparable = z3.And(same_dim, z3.Or(Fs == Fo, z3.Not(noconv(Fs, Fo)), z3.Not(noconv(Fo, Fs))))
        lo_s, hi_s = as_interval(o, a.self)
        lo_o, hi_o = as_interval(o, a.other)
        yield "different-dimension-unequal", z3.Implies(z3.Not(same_dim), z3.Not(r.z))
        yield "overlap", z3.Implies(comparable, r.z == z3.And(lo_s <= hi_o, lo_o <= hi_s))
        yield "incomparable-unequal", z3.Implies(z3.And(same_dim, z3.Not(comparable)), z3.Not(r.z))
