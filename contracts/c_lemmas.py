"""Contracts (hypotheses only) of the lemma functions in lemma_src.py."""
import ast
import z3
from pyvc.sorts import *  # noqa
from pyvc.verify import Contract
from .model import *  # noqa
from .c_dimension import wf_dim
from .c_prefix import wf_pfx, bases_ok
from .c_unit import wf_unit, _UnitBin

CONTRACTS = {}
SRC = "/verif/contracts/lemma_src.py"


def _mk(name, props):
    def requires(self, c, a):
        vals = [v for v in a.__dict__.values() if isinstance(v, VObj)]
        for k, v in a.__dict__.items():
            if isinstance(v, VObj):
                if v.cls == "Dimension":
                    yield "wf-" + k, wf_dim(c, v)
                elif v.cls == "Prefix":
                    # registered prefixes: base >= 2, or the identity prefix (base 0 is otherwise not a scale)
                    yield "wf-" + k, z3.And(wf_pfx(c, v), z3.Or(v.ref == IdentityPrefix.ref, pbase(c, v) >= 2))
                elif v.cls == "Unit":
                    yield "wf-" + k, wf_unit(c, v)
                elif v.cls == "Quantity":
                    from .c_quantity import wf_qty
                    yield "wf-" + k, wf_qty(c, v)
                    yield "offset-free-" + k, offset_free_m(c.fz("Unit", c.f(v, "unit"), "factors"))
        # same-base clause of C02: all prefixes involved share one base (or are the identity)
        pfx = [v for v in vals if v.cls == "Prefix"] + [VObj("Prefix", c.f(v, "prefix")) for v in vals if v.cls == "Unit"]
        lus = [v for v in vals if v.cls == "LogarithmicUnit"]
        for lu in lus:
            from .c_level import wf_lu, lref
            yield "wf-lu", wf_lu(c, lu)
            for q in [v for v in vals if v.cls == "Quantity"]:
                from .c_quantity import mval, mkind
                ref = lref(c, lu)
                yield "positive-convertible", z3.And(mval(c, q) > 0, mkind(c, q) != K_DEC, pval_z(c, c.fz("Unit", c.f(q, "unit"), "prefix")) > 0,
                                                     c.fz("Unit", c.f(q, "unit"), "dimension") == c.fz("Unit", c.f(ref, "unit"), "dimension"),
                                                     z3.Not(noconv(c.fz("Unit", c.f(q, "unit"), "factors"), c.fz("Unit", c.f(ref, "unit"), "factors"))))
        if name.startswith(("conv_", "canary_conv")):
            # C05: every unit involved is offset-free, of the quantity's dimension, and connected to the others
            from .c_quantity import mkind
            us = [VObj("Unit", c.f(v, "unit")) for v in vals if v.cls == "Quantity"] + [v for v in vals if v.cls == "Unit"]
            for v in vals:
                if v.cls == "Quantity":
                    yield "float-or-int-magnitude", mkind(c, v) != K_DEC
            for i, ui in enumerate(us):
                yield "offset-free-unit-%d" % i, offset_free_m(c.fz("Unit", ui.ref, "factors"))
                yield "positive-prefix-%d" % i, pval_z(c, c.fz("Unit", ui.ref, "prefix")) > 0
                for j, uj in enumerate(us):
                    if i != j:
                        yield "convertible-%d-%d" % (i, j), z3.And(z3.Not(noconv(c.fz("Unit", ui.ref, "factors"), c.fz("Unit", uj.ref, "factors"))),
                                                                  c.fz("Unit", ui.ref, "dimension") == c.fz("Unit", uj.ref, "dimension"))
            return
        qs = [v for v in vals if v.cls == "Quantity"] if not lus else []
        if qs or lus:
            pfx = []
            # the ordering lemmas are about quantities the library can compare: one dimension, convertible both ways
            for i in range(len(qs)):
                for j in range(len(qs)):
                    if i != j:
                        fi, fj = c.fz("Unit", c.f(qs[i], "unit"), "factors"), c.fz("Unit", c.f(qs[j], "unit"), "factors")
                        yield "comparable-%d-%d" % (i, j), z3.And(z3.Not(noconv(fi, fj)),
                                                                  c.fz("Unit", c.f(qs[i], "unit"), "dimension") == c.fz("Unit", c.f(qs[j], "unit"), "dimension"))
        for i in range(len(pfx)):
            for j in range(i + 1, len(pfx)):
                yield "same-base-%d-%d" % (i, j), z3.Or(pbase(c, pfx[i]) == 0, pbase(c, pfx[j]) == 0, pbase(c, pfx[i]) == pbase(c, pfx[j]))
        # integer prefix exponents (registered SI/IEC prefixes and their same-base products)
        for k, p in enumerate(pfx):
            yield "integral-exponent-%d" % k, z3.IsInt(pexp(c, p))
            yield "registered-base-%d" % k, z3.Or(p.ref == IdentityPrefix.ref, pbase(c, p) >= 2)

    K = type("L_" + name, (Contract,), {
        "qual": "lemmas." + name, "props": props, "inv": ("I_D", "I_P", "I_U"),
        "modifies": _UnitBin.modifies + ("new:Quantity", "new:Level"), "ret": ("none",), "requires": requires, "lemma": True})
    CONTRACTS["lemmas." + name] = K()


# laws whose proof from the contracts the solver does not complete within the budget; they are
# NOT claimed as proved: the native stand-in of C02 exercises them (bounded) instead
BOUNDED_ONLY = {"prefix_associative", "unit_associative", "unit_exponent_sum", "unit_neutral", "unit_root_of_power"}

for _n in ast.parse(open(SRC).read()).body:
    if isinstance(_n, ast.FunctionDef) and _n.name not in BOUNDED_ONLY:
        _canary = {"canary_unit": ("C01", "C02", "C11"), "canary_prefix": ("C02", "C11"), "canary_dim": ("C02",), "canary_qty": ("C06", "C12"), "canary_level": ("C18",), "canary_conv": ("C05",)}
        _p = _canary[_n.name] if _n.name in _canary else ("C02", "C11") if _n.name.startswith(("prefix", "prefixed")) else ("C12",) if _n.name.startswith("qty_") else ("C18",) if _n.name.startswith("level_") else ("C05",) if _n.name.startswith("conv_") else ("C02",)
        _mk(_n.name, _p)
