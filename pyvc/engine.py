"""Forward symbolic execution of the real Python source (AST) of measured.

One path at a time; every call to a function that has a contract is replaced by the
contract (modular verification); functions without a contract are inlined (depth-bounded).
Anything outside the supported subset raises Unsupported: the function's obligations are
then *undecided*, never violated.
"""
import ast
import z3
from .sorts import *  # noqa
from .ops import (Unsupported, Exc, truth, merge, mergeable, arith, num_compare, to_num, is_numeric, simp,
                  is_concrete_bool, rpow, rpowr, rlog, rsqrt)
from .state import State, Container, empty_dom

EXC_PARENT = {
    "FractionalDimensionError": "ValueError", "ConversionNotFound": "ValueError", "ValueError": "Exception",
    "TypeError": "Exception", "KeyError": "LookupError", "IndexError": "LookupError",
    "LookupError": "Exception", "ZeroDivisionError": "ArithmeticError", "OverflowError": "ArithmeticError",
    "ArithmeticError": "Exception", "AssertionError": "Exception", "AttributeError": "Exception",
    "RecursionError": "RuntimeError", "RuntimeError": "Exception", "NotImplementedError": "RuntimeError",
    "Exception": "BaseException", "LarkError": "Exception", "ParseError": "Exception",
}


def exc_isa(cls, parent):
    while cls is not None:
        if cls == parent:
            return True
        cls = EXC_PARENT.get(cls)
    return False


MAX_INLINE_DEPTH = 6
MAX_PATHS = 4000


class Engine:
    def __init__(self, program, schema, contracts, builtins, timeout_ms=10000):
        self.program, self.schema, self.contracts = program, schema, contracts
        self.builtins = builtins  # name -> handler(engine, args, kwargs, state, node) -> iter[(val, state)]
        self.pure = 0
        self.target = None  # qualname under verification
        self.call_sites = {}
        self.paths = 0
        self.timeout_ms = timeout_ms
        self.global_axioms = []  # formulas valid in every state
        self.modular_hook = None  # set by verify: apply contract at call
        self.ctor_hook = None
        self.pure_exc = []
        self.executed = {}  # qualname -> sha of every function body executed (target and inlined callees)

    # ----------------------------------------------------------------------------------
    # feasibility and branching
    def feasible(self, state, extra=None):
        # pruning only: uses the quantifier-free part of the path condition (sound: fewer
        # hypotheses can only keep more paths alive; obligations on dead paths are vacuous)
        s = z3.Solver()
        s.set(timeout=800)
        for f in state.pc:
            if not _has_quant(f):
                s.add(f)
        if extra is not None:
            s.add(extra)
        return s.check() != z3.unsat

    def branch(self, state, cond):
        """yield (bool, state) for the feasible outcomes of a z3 Bool condition."""
        cond = simp(cond)
        cb = is_concrete_bool(cond)
        if cb is not None:
            yield cb, state
            return
        if self.pure:
            raise Unsupported("fork in pure context on %s" % cond)
        if self.feasible(state, cond):
            st = state.fork()
            st.assume(cond)
            yield True, st
        nc = simp(z3.Not(cond))
        if self.feasible(state, nc):
            sf = state.fork()
            sf.assume(nc)
            yield False, sf

    def alternatives(self, state, alts):
        """alts: [(guard, value)] mutually exclusive and exhaustive -> yield (value, state)."""
        live = []
        for g, v in alts:
            g = simp(g)
            if z3.is_false(g):
                continue
            live.append((g, v))
        if len(live) == 1 and z3.is_true(live[0][0]):
            yield live[0][1], state
            return
        if self.pure:
            # in pure context only the non-exceptional alternative may be taken, and the
            # exceptional guards become side obligations recorded by the caller
            vals = [(g, v) for g, v in live if not isinstance(v, Exc)]
            if len(vals) == 1:
                for g, v in live:
                    if isinstance(v, Exc) and self.feasible(state, g):
                        self.pure_exc.append((g, v))
                yield vals[0][1], state
                return
            raise Unsupported("alternatives in pure context")
        for g, v in live:
            if self.feasible(state, g):
                st = state.fork()
                st.assume(g)
                yield v, st

    def tr(self, v, state):
        """truthiness, looking through container references"""
        if isinstance(v, VLoc):
            v = self.builtins["__freeze__"](self, v, state)
            if isinstance(v, VEmptyDict):
                return z3.BoolVal(False)
            if isinstance(v, VLoc):
                c = state.glob(v.key) if isinstance(v.key, str) else state.locs[v.key]
                if c.kind == "set":
                    return c.dom != z3.K(c.dom.sort().domain(), z3.BoolVal(False))
                raise Unsupported("truth of container")
        return truth(v)

    # ----------------------------------------------------------------------------------
    # name resolution
    def module_of(self, state):
        return self.program.modules[state.env["__module__"]]

    def lookup_name(self, name, state):
        if name in state.env:
            return state.env[name]
        return self.lookup_global(name, state.env["__module__"])

    def lookup_global(self, name, modname):
        m = self.program.modules[modname]
        if name in self.schema.consts:
            return self.schema.const_value(name)
        if name in m.classes:
            return VClass(name)
        if name in m.functions:
            return VFunc(m.functions[name].qual)
        gq = modname.split(".")[-1] + "." + name if modname != "measured" else name
        if gq in self.schema.globals:
            return VLoc(gq)
        if name in m.imports:
            src, attr = m.imports[name]
            full = self._resolve_module(src, modname)
            if attr is None:
                return VModule(full)
            if full in self.program.modules:
                if full + "." + attr in self.program.modules:
                    return VModule(full + "." + attr)
                return self.lookup_global(attr, full)
            if full == "measured" and attr in self.schema.consts:
                return self.schema.const_value(attr)
            if full == "measured" or full.startswith("measured."):
                return VModule(full + "." + attr)
            return VFunc(full + "." + attr)  # external function / class, by dotted name
        if name in ("True", "False", "None"):
            return {"True": VBool(True), "False": VBool(False), "None": NONE}[name]
        if name == "NotImplemented":
            return NOTIMPL
        if name in m.globals_assigned:
            vals = m.globals_assigned[name]
            if len(vals) == 1 and isinstance(vals[0], ast.Constant):
                return self.const(vals[0].value)
            if len(vals) == 1 and isinstance(vals[0], ast.Name):
                return self.lookup_global(vals[0].id, modname)
            if len(vals) == 1 and isinstance(vals[0], ast.Tuple) and all(isinstance(e, ast.Name) for e in vals[0].elts):
                return VTuple([self.lookup_global(e.id, modname) for e in vals[0].elts])
        if name in EXC_PARENT or name in ("Exception",):
            return VClass(name)
        return VFunc("builtins." + name)

    def _resolve_module(self, src, modname):
        if src.startswith("."):
            base = "measured"
            rest = src.lstrip(".")
            return base + ("." + rest if rest else "")
        return src

    def const(self, c):
        if c is None:
            return NONE
        if isinstance(c, bool):
            return VBool(c)
        if isinstance(c, int):
            return VInt(c)
        if isinstance(c, float):
            from fractions import Fraction
            f = Fraction(c)
            return VNum(K_FLOAT, z3.RealVal(f.numerator) / z3.RealVal(f.denominator) if f.denominator != 1 else z3.RealVal(f.numerator))
        if isinstance(c, str):
            return VStr(c)
        if c is Ellipsis:
            return VOpaque("...")
        raise Unsupported("constant %r" % (c,))

    # ----------------------------------------------------------------------------------
    # statements
    def exec_block(self, stmts, state):
        """yield (kind, payload, state); kind in next/return/raise/break/continue."""
        if not stmts:
            yield "next", None, state
            return
        head, rest = stmts[0], stmts[1:]
        for kind, payload, st in self.exec_stmt(head, state):
            if kind == "next":
                yield from self.exec_block(rest, st)
            else:
                yield kind, payload, st

    def exec_stmt(self, node, state):
        self.paths += 1
        if self.paths > MAX_PATHS * 50:
            raise Unsupported("path explosion")
        m = getattr(self, "s_" + type(node).__name__, None)
        if m is None:
            raise Unsupported("statement %s at line %d" % (type(node).__name__, node.lineno))
        yield from m(node, state)

    def s_Pass(self, node, state):
        yield "next", None, state

    def s_Expr(self, node, state):
        if isinstance(node.value, ast.Constant):
            yield "next", None, state
            return
        for v, st in self.eval(node.value, state):
            if isinstance(v, Exc):
                yield "raise", v, st
            else:
                yield "next", None, st

    def s_Return(self, node, state):
        if node.value is None:
            yield "return", NONE, state
            return
        for v, st in self.eval(node.value, state):
            if isinstance(v, Exc):
                yield "raise", v, st
            else:
                yield "return", v, st

    def s_Raise(self, node, state):
        if node.exc is None:
            yield "raise", state.env.get("__active_exc__", Exc("Exception")), state
            return
        e = node.exc
        if isinstance(e, ast.Call):
            e = e.func
        name = e.id if isinstance(e, ast.Name) else e.attr if isinstance(e, ast.Attribute) else None
        if name is None:
            raise Unsupported("raise expression")
        # A8: the exception payload (message formatting) is not evaluated
        yield "raise", Exc(name, "line %d" % node.lineno), state

    def s_Assert(self, node, state):
        for v, st in self.eval(node.test, state):
            if isinstance(v, Exc):
                yield "raise", v, st
                continue
            c = self.tr(v, st)
            for b, s2 in self.branch(st, c):
                if b:
                    yield "next", None, s2
                else:
                    yield "raise", Exc("AssertionError", "line %d" % node.lineno), s2

    def s_If(self, node, state):
        for v, st in self.eval(node.test, state):
            if isinstance(v, Exc):
                yield "raise", v, st
                continue
            for b, s2 in self.branch(st, self.tr(v, st)):
                yield from self.exec_block(node.body if b else node.orelse, s2)

    def s_Assign(self, node, state):
        for v, st in self.eval(node.value, state):
            if isinstance(v, Exc):
                yield "raise", v, st
                continue
            sts = [st]
            for t in node.targets:
                nxt = []
                for s0 in sts:
                    for r, s1 in self.assign(t, v, s0):
                        if isinstance(r, Exc):
                            yield "raise", r, s1
                        else:
                            nxt.append(s1)
                sts = nxt
            for s0 in sts:
                yield "next", None, s0

    def s_AnnAssign(self, node, state):
        if node.value is None:
            yield "next", None, state
            return
        for v, st in self.eval(node.value, state):
            if isinstance(v, Exc):
                yield "raise", v, st
                continue
            for r, s1 in self.assign(node.target, v, st):
                if isinstance(r, Exc):
                    yield "raise", r, s1
                else:
                    yield "next", None, s1

    def s_AugAssign(self, node, state):
        load = _as_load(node.target)
        for cur, st in self.eval(load, state):
            if isinstance(cur, Exc):
                yield "raise", cur, st
                continue
            for rhs, s1 in self.eval(node.value, st):
                if isinstance(rhs, Exc):
                    yield "raise", rhs, s1
                    continue
                for v, s2 in self.binop(type(node.op).__name__, cur, rhs, s1, inplace=True):
                    if isinstance(v, Exc):
                        yield "raise", v, s2
                        continue
                    for r, s3 in self.assign(node.target, v, s2):
                        if isinstance(r, Exc):
                            yield "raise", r, s3
                        else:
                            yield "next", None, s3

    def s_Try(self, node, state):
        if node.finalbody:
            raise Unsupported("try/finally")
        for kind, payload, st in self.exec_block(node.body, state):
            if kind == "raise":
                handled = False
                for h in node.handlers:
                    names = _handler_names(h)
                    if names is None or any(exc_isa(payload.cls, n) for n in names):
                        s2 = st.fork()
                        if h.name:
                            s2.env[h.name] = VOpaque("exception")
                        s2.env["__active_exc__"] = payload
                        yield from self.exec_block(h.body, s2)
                        handled = True
                        break
                if not handled:
                    yield kind, payload, st
            elif kind == "next" and node.orelse:
                yield from self.exec_block(node.orelse, st)
            else:
                yield kind, payload, st

    def s_With(self, node, state):
        # `with <lock>:` -- sequential semantics (A9): the body runs, the lock is a no-op.  The lock
        # discipline itself is a separate (static) obligation of C20.
        for item in node.items:
            src = ast.unparse(item.context_expr)
            if "lock" not in src.lower() or item.optional_vars is not None:
                raise Unsupported("with statement over %s" % src)
        yield from self.exec_block(node.body, state)

    def s_Break(self, node, state):
        yield "break", None, state

    def s_Continue(self, node, state):
        yield "continue", None, state

    def s_Delete(self, node, state):
        sts = [state]
        for t in node.targets:
            if not isinstance(t, ast.Subscript):
                raise Unsupported("del of non-subscript")
            nxt = []
            for s0 in sts:
                for c, s1 in self.eval(t.value, s0):
                    for k, s2 in self.eval(t.slice, s1):
                        if isinstance(c, Exc) or isinstance(k, Exc):
                            yield "raise", c if isinstance(c, Exc) else k, s2
                            continue
                        for r, s3 in self.builtins["__delitem__"](self, c, k, s2):
                            if isinstance(r, Exc):
                                yield "raise", r, s3
                            else:
                                nxt.append(s3)
            sts = nxt
        for s0 in sts:
            yield "next", None, s0

    def s_For(self, node, state):
        yield from self.builtins["__for__"](self, node, state)

    def s_While(self, node, state):
        yield from self.builtins["__while__"](self, node, state)

    def s_Import(self, node, state):
        yield "next", None, state

    def s_ImportFrom(self, node, state):
        st = state.fork()
        for a in node.names:
            full = self._resolve_module(("." * node.level) + (node.module or ""), st.env["__module__"])
            if full in self.program.modules:
                st.env[a.asname or a.name] = self.lookup_global(a.name, full)
            else:
                st.env[a.asname or a.name] = VFunc(full + "." + a.name)
        yield "next", None, st

    # ----------------------------------------------------------------------------------
    # assignment targets
    def assign(self, target, v, state):
        if isinstance(target, ast.Name):
            st = state.fork()
            st.env[target.id] = v
            yield None, st
        elif isinstance(target, (ast.Tuple, ast.List)):
            items = self.unpack(v, len(target.elts), target)
            sts = [state]
            for t, item in zip(target.elts, items):
                nxt = []
                for s0 in sts:
                    if isinstance(t, ast.Starred):
                        s1 = s0.fork()
                        s1.env[t.value.id] = item
                        nxt.append(s1)
                        continue
                    for r, s1 in self.assign(t, item, s0):
                        if isinstance(r, Exc):
                            yield r, s1
                        else:
                            nxt.append(s1)
                sts = nxt
            for s0 in sts:
                yield None, s0
        elif isinstance(target, ast.Attribute):
            for obj, st in self.eval(target.value, state):
                if isinstance(obj, Exc):
                    yield obj, st
                    continue
                yield from self.set_attr(obj, target.attr, v, st)
        elif isinstance(target, ast.Subscript):
            for c, s1 in self.eval(target.value, state):
                if isinstance(c, Exc):
                    yield c, s1
                    continue
                for k, s2 in self.eval(target.slice, s1):
                    if isinstance(k, Exc):
                        yield k, s2
                        continue
                    yield from self.builtins["__setitem__"](self, c, k, v, s2)
        else:
            raise Unsupported("assignment target %s" % type(target).__name__)

    def unpack(self, v, n, target=None):
        if isinstance(v, VTuple):
            stars = [i for i, t in enumerate(target.elts) if isinstance(t, ast.Starred)] if target is not None else []
            if stars:
                i = stars[0]
                after = n - i - 1
                mid = v.items[i:len(v.items) - after]
                return v.items[:i] + [VTuple(mid)] + (v.items[len(v.items) - after:] if after else [])
            if len(v.items) != n:
                raise Unsupported("unpack arity")
            return v.items
        if isinstance(v, VLoc):
            raise Unsupported("unpack of container")
        raise Unsupported("unpack %r" % (v,))

    def set_attr(self, obj, attr, v, state):
        if isinstance(obj, VObj):
            fields = self.schema.fields.get(obj.cls, {})
            if attr in fields:
                st = state.fork()
                v2 = self.builtins["__freeze__"](self, v, st)
                st.write(obj.cls, obj.ref, attr, unwrap(v2, fields[attr]))
                yield None, st
                return
        raise Unsupported("attribute store %s.%s" % (getattr(obj, "cls", obj), attr))

    # ----------------------------------------------------------------------------------
    # expressions: generators yielding (value | Exc, state)
    def eval(self, node, state):
        m = getattr(self, "e_" + type(node).__name__, None)
        if m is None:
            raise Unsupported("expression %s at line %d" % (type(node).__name__, getattr(node, "lineno", 0)))
        yield from m(node, state)

    def eval1(self, node, state):
        """Pure single-result evaluation."""
        self.pure += 1
        try:
            res = list(self.eval(node, state))
        finally:
            self.pure -= 1
        if len(res) != 1 or isinstance(res[0][0], Exc):
            raise Unsupported("non-deterministic pure evaluation of %s" % ast.unparse(node))
        return res[0][0]

    def eval_seq(self, nodes, state):
        if not nodes:
            yield [], state
            return
        for v, st in self.eval(nodes[0], state):
            if isinstance(v, Exc):
                yield v, st
                continue
            for vs, s2 in self.eval_seq(nodes[1:], st):
                if isinstance(vs, Exc):
                    yield vs, s2
                else:
                    yield [v] + vs, s2

    def e_Constant(self, node, state):
        yield self.const(node.value), state

    def e_Name(self, node, state):
        yield self.lookup_name(node.id, state), state

    def e_Tuple(self, node, state):
        for vs, st in self.eval_seq(node.elts, state):
            yield (vs if isinstance(vs, Exc) else VTuple(vs)), st

    def e_List(self, node, state):
        for vs, st in self.eval_seq(node.elts, state):
            if isinstance(vs, Exc):
                yield vs, st
            else:
                st = st.fork()
                k = st.new_loc(Container("list", items=list(vs)))
                yield VLoc(k), st

    def e_Set(self, node, state):
        raise Unsupported("set display")

    def e_Dict(self, node, state):
        yield from self.builtins["__dictdisplay__"](self, node, state)

    def e_JoinedStr(self, node, state):
        yield VOpaque("f-string"), state  # A8/A10: formatted text is not modelled

    def e_Lambda(self, node, state):
        yield VLambda(node, dict(state.env)), state

    def e_GeneratorExp(self, node, state):
        yield VGen(node, dict(state.env)), state

    def e_ListComp(self, node, state):
        yield from self.builtins["__listcomp__"](self, node, state)

    def e_DictComp(self, node, state):
        yield from self.builtins["__dictcomp__"](self, node, state)

    def e_IfExp(self, node, state):
        for c, st in self.eval(node.test, state):
            if isinstance(c, Exc):
                yield c, st
                continue
            cz = simp(self.tr(c, st))
            cb = is_concrete_bool(cz)
            if cb is not None:
                yield from self.eval(node.body if cb else node.orelse, st)
                continue
            # try to merge
            try:
                a = self.eval1(node.body, st)
                b = self.eval1(node.orelse, st)
                if mergeable(a, b):
                    yield merge(cz, a, b), st
                    continue
            except Unsupported:
                if self.pure:
                    raise
            for bval, s2 in self.branch(st, cz):
                yield from self.eval(node.body if bval else node.orelse, s2)

    def e_BoolOp(self, node, state):
        is_or = isinstance(node.op, ast.Or)

        def go(i, st):
            for v, s1 in self.eval(node.values[i], st):
                if isinstance(v, Exc) or i == len(node.values) - 1:
                    yield v, s1
                    continue
                t = simp(self.tr(v, s1))
                cb = is_concrete_bool(t)
                if cb is not None:
                    if cb == is_or:
                        yield v, s1
                    else:
                        yield from go(i + 1, s1)
                    continue
                if self.pure or isinstance(v, VBool):
                    # merge lazily when the rest is pure and mergeable; the rest is only
                    # evaluated when the first operand does not decide the result
                    try:
                        s_as = s1.fork()
                        s_as.assume(simp(z3.Not(t)) if is_or else t)
                        saved_exc, self.pure_exc = self.pure_exc, []
                        try:
                            rest = self.eval1(ast.BoolOp(op=node.op, values=node.values[i + 1:]) if i + 2 < len(node.values) else node.values[i + 1], s_as)
                            if self.pure_exc and not self.pure:
                                raise Unsupported("exception inside a merged boolean operand")
                        finally:
                            if self.pure:
                                self.pure_exc = saved_exc + self.pure_exc
                            else:
                                self.pure_exc = saved_exc
                        if mergeable(v, rest):
                            yield (merge(t, v, rest) if is_or else merge(t, rest, v)), s1
                            continue
                        if isinstance(v, VBool) or True:
                            tv, tr = t, self.tr(rest, s1)
                            if isinstance(rest, VBool) or self.pure:
                                yield VBool(z3.Or(tv, tr) if is_or else z3.And(tv, tr)), s1
                                continue
                    except Unsupported:
                        if self.pure:
                            raise
                for b, s2 in self.branch(s1, t):
                    if b == is_or:
                        yield v, s2
                    else:
                        yield from go(i + 1, s2)

        yield from go(0, state)

    def e_UnaryOp(self, node, state):
        for v, st in self.eval(node.operand, state):
            if isinstance(v, Exc):
                yield v, st
                continue
            op = type(node.op).__name__
            if op == "Not":
                yield VBool(z3.Not(self.tr(v, st))), st
            elif op == "USub":
                if isinstance(v, VInt):
                    yield VInt(-v.z), st
                elif isinstance(v, VNum):
                    yield VNum(v.kind, -v.val), st
                elif isinstance(v, VObj):
                    yield from self.call_method(v, "__neg__", [], {}, st, node)
                else:
                    raise Unsupported("neg")
            elif op == "UAdd":
                if isinstance(v, (VInt, VNum)):
                    yield v, st
                elif isinstance(v, VObj):
                    yield from self.call_method(v, "__pos__", [], {}, st, node)
                else:
                    raise Unsupported("pos")
            else:
                raise Unsupported("unary " + op)

    def e_BinOp(self, node, state):
        for a, s1 in self.eval(node.left, state):
            if isinstance(a, Exc):
                yield a, s1
                continue
            for b, s2 in self.eval(node.right, s1):
                if isinstance(b, Exc):
                    yield b, s2
                    continue
                yield from self.binop(type(node.op).__name__, a, b, s2, node=node)

    DUNDER = {"Add": "add", "Sub": "sub", "Mult": "mul", "Div": "truediv", "Pow": "pow", "FloorDiv": "floordiv", "Mod": "mod"}

    def binop(self, op, a, b, state, node=None, inplace=False):
        if is_numeric(a) and is_numeric(b):
            yield from self.alternatives(state, arith(op, a, b))
            return
        h = self.builtins.get("__binop__")
        if h is not None:
            res = h(self, op, a, b, state)
            if res is not None:
                yield from res
                return
        if op not in self.DUNDER:
            raise Unsupported("binop " + op)
        dn = "__%s__" % self.DUNDER[op]
        rn = "__r%s__" % self.DUNDER[op]
        # Python data model: try a.__op__(b); if NotImplemented / missing, b.__rop__(a)
        if isinstance(a, VObj) and self.find_method(a.cls, dn):
            for r, st in self.call_method(a, dn, [b], {}, state, node):
                if isinstance(r, VNotImpl):
                    yield from self._reflected(rn, a, b, st, node, op)
                else:
                    yield r, st
            return
        yield from self._reflected(rn, a, b, state, node, op)

    def _reflected(self, rn, a, b, state, node, op):
        if isinstance(b, VObj) and self.find_method(b.cls, rn) and not (isinstance(a, VObj) and a.cls == b.cls):
            for r, st in self.call_method(b, rn, [a], {}, state, node):
                if isinstance(r, VNotImpl):
                    yield Exc("TypeError", "unsupported operand types for " + op), st
                else:
                    yield r, st
            return
        yield Exc("TypeError", "unsupported operand types for " + op), state

    def e_Compare(self, node, state):
        def go(left, ops, comps, st):
            for right, s1 in self.eval(comps[0], st):
                if isinstance(right, Exc):
                    yield right, s1
                    continue
                for r, s2 in self.compare(type(ops[0]).__name__, left, right, s1, node):
                    if isinstance(r, Exc) or len(ops) == 1:
                        yield r, s2
                        continue
                    t = simp(self.tr(r, s2))
                    cb = is_concrete_bool(t)
                    if cb is False:
                        yield r, s2
                    elif cb is True:
                        yield from go(right, ops[1:], comps[1:], s2)
                    else:
                        if self.pure or isinstance(r, VBool):
                            try:
                                self.pure += 1
                                try:
                                    rest = list(go(right, ops[1:], comps[1:], s2))
                                finally:
                                    self.pure -= 1
                                if len(rest) == 1 and isinstance(rest[0][0], VBool):
                                    yield VBool(z3.And(t, rest[0][0].z)), s2
                                    continue
                            except Unsupported:
                                if self.pure:
                                    raise
                        for b, s3 in self.branch(s2, t):
                            if b:
                                yield from go(right, ops[1:], comps[1:], s3)
                            else:
                                yield r, s3

        # peephole (A4): `a // b != a / b` means "b does not divide a" (exact for ints)
        if (len(node.ops) == 1 and isinstance(node.ops[0], (ast.NotEq, ast.Eq)) and isinstance(node.left, ast.BinOp)
                and isinstance(node.comparators[0], ast.BinOp) and isinstance(node.left.op, ast.FloorDiv)
                and isinstance(node.comparators[0].op, ast.Div)
                and ast.dump(node.left.left) == ast.dump(node.comparators[0].left)
                and ast.dump(node.left.right) == ast.dump(node.comparators[0].right)):
            for vs, s1 in self.eval_seq([node.left.left, node.left.right], state):
                if isinstance(vs, Exc):
                    yield vs, s1
                    continue
                x, d = vs
                if isinstance(x, VInt) and isinstance(d, VInt):
                    from .ops import _pymod
                    ndiv = _pymod(x.z, d.z) != 0
                    zero = d.z == 0
                elif is_numeric(x) and is_numeric(d):
                    q = to_num(x).val / to_num(d).val
                    ndiv = z3.ToReal(z3.ToInt(q)) != q
                    zero = to_num(d).val == 0
                else:
                    raise Unsupported("divisibility idiom on non-numbers")
                res = VBool(ndiv if isinstance(node.ops[0], ast.NotEq) else z3.Not(ndiv))
                yield from self.alternatives(s1, [(zero, Exc("ZeroDivisionError")), (z3.Not(zero), res)])
            return
        for left, s0 in self.eval(node.left, state):
            if isinstance(left, Exc):
                yield left, s0
                continue
            yield from go(left, node.ops, node.comparators, s0)

    def compare(self, op, a, b, state, node=None):
        if op in ("Is", "IsNot"):
            r = self.identical(a, b)
            yield VBool(r if op == "Is" else z3.Not(r)), state
            return
        if op in ("In", "NotIn"):
            for r, st in self.builtins["__contains__"](self, b, a, state):
                if isinstance(r, Exc):
                    yield r, st
                else:
                    yield VBool(r.z if op == "In" else z3.Not(r.z)), st
            return
        if is_numeric(a) and is_numeric(b):
            yield VBool(num_compare(op, a, b)), state
            return
        yield from self.rich_compare(op, a, b, state, node)

    def identical(self, a, b):
        if isinstance(a, VObj) and isinstance(b, VObj):
            return a.ref == b.ref if a.cls == b.cls else z3.BoolVal(False)
        if isinstance(a, VNone) or isinstance(b, VNone):
            if isinstance(a, VOptStr):
                return OptStr.is_onone(a.z)
            if isinstance(b, VOptStr):
                return OptStr.is_onone(b.z)
            return z3.BoolVal(isinstance(a, VNone) and isinstance(b, VNone))
        if isinstance(a, VNotImpl) or isinstance(b, VNotImpl):
            return z3.BoolVal(isinstance(a, VNotImpl) and isinstance(b, VNotImpl))
        if isinstance(a, VClass) and isinstance(b, VClass):
            return z3.BoolVal(a.name == b.name)
        if isinstance(a, VBool) and isinstance(b, VBool):
            return a.z == b.z
        if type(a) is not type(b) and not (is_numeric(a) and is_numeric(b)):
            return z3.BoolVal(False)
        raise Unsupported("identity of %r and %r" % (a, b))

    REFL = {"Eq": "Eq", "NotEq": "NotEq", "Lt": "Gt", "Gt": "Lt", "LtE": "GtE", "GtE": "LtE"}
    CMPN = {"Eq": "__eq__", "NotEq": "__ne__", "Lt": "__lt__", "Gt": "__gt__", "LtE": "__le__", "GtE": "__ge__"}

    def rich_compare(self, op, a, b, state, node):
        """Python's rich comparison protocol including reflected fallback (data model)."""
        h = self.builtins.get("__richcmp__")
        if h is not None:
            res = h(self, op, a, b, state, node)
            if res is not None:
                yield from res
                return
        raise Unsupported("comparison %s of %r and %r" % (op, a, b))

    def e_Attribute(self, node, state):
        for obj, st in self.eval(node.value, state):
            if isinstance(obj, Exc):
                yield obj, st
                continue
            yield from self.get_attr(obj, node.attr, st, node)

    def find_method(self, cls, name):
        ci = self.program.cls(cls)
        if ci is None:
            return None
        return self.program.method(ci.module, cls, name)

    def get_attr(self, obj, attr, state, node=None):
        if isinstance(obj, VObj):
            fields = self.schema.fields.get(obj.cls, {})
            if attr in fields:
                yield wrap(state.read(obj.cls, obj.ref, attr), fields[attr]), state
                return
            if (obj.cls, attr) in self.schema.class_attr:
                yield VLoc(self.schema.class_attr[(obj.cls, attr)]), state
                return
            f = self.find_method(obj.cls, attr)
            if f is not None:
                if f.kind == "property":
                    yield from self.call_function(f, [obj], {}, state, node)
                elif f.kind == "class":
                    yield VFunc(f.qual, bound=VClass(obj.cls)), state
                elif f.kind == "static":
                    yield VFunc(f.qual), state
                else:
                    yield VFunc(f.qual, bound=obj), state
                return
            raise Unsupported("attribute %s.%s" % (obj.cls, attr))
        if isinstance(obj, VClass):
            if (obj.name, attr) in self.schema.class_attr:
                yield VLoc(self.schema.class_attr[(obj.name, attr)]), state
                return
            f = self.find_method(obj.name, attr)
            if f is not None:
                yield VFunc(f.qual, bound=VClass(obj.name) if f.kind == "class" else None), state
                return
            raise Unsupported("class attribute %s.%s" % (obj.name, attr))
        if isinstance(obj, VModule):
            if obj.name in self.program.modules:
                yield self.lookup_global(attr, obj.name), state
            else:
                yield VFunc(obj.name + "." + attr), state
            return
        if isinstance(obj, (VLoc, VMap, VStr, VITup, VTuple, VOpaque, VOptStr)) or True:
            yield VFunc("method:" + attr, bound=obj), state
            return

    def e_Subscript(self, node, state):
        for c, s1 in self.eval(node.value, state):
            if isinstance(c, Exc):
                yield c, s1
                continue
            if isinstance(node.slice, ast.Slice):
                yield from self.builtins["__slice__"](self, c, node.slice, s1)
                continue
            for k, s2 in self.eval(node.slice, s1):
                if isinstance(k, Exc):
                    yield k, s2
                    continue
                yield from self.builtins["__getitem__"](self, c, k, s2)

    def e_Starred(self, node, state):
        raise Unsupported("starred expression")

    # ----------------------------------------------------------------------------------
    # calls
    def e_Call(self, node, state):
        # super().__new__(cls)
        if (isinstance(node.func, ast.Attribute) and isinstance(node.func.value, ast.Call)
                and isinstance(node.func.value.func, ast.Name) and node.func.value.func.id == "super"):
            if node.func.attr == "__new__":
                for vs, st in self.eval_seq(node.args, state):
                    cls = vs[0]
                    st = st.fork()
                    ref = st.allocate(cls.name)
                    yield VObj(cls.name, ref), st
                return
            if node.func.attr == "__init__":
                yield NONE, state
                return
            raise Unsupported("super()." + node.func.attr)
        for f, s0 in self.eval(node.func, state):
            if isinstance(f, Exc):
                yield f, s0
                continue
            star = [a for a in node.args if isinstance(a, ast.Starred)]
            if star:
                yield from self.builtins["__starcall__"](self, f, node, s0)
                continue
            for args, s1 in self.eval_seq(node.args, s0):
                if isinstance(args, Exc):
                    yield args, s1
                    continue
                for kwv, s2 in self.eval_seq([k.value for k in node.keywords], s1):
                    if isinstance(kwv, Exc):
                        yield kwv, s2
                        continue
                    kwargs = {k.arg: v for k, v in zip(node.keywords, kwv)}
                    yield from self.call_value(f, args, kwargs, s2, node)

    def call_value(self, f, args, kwargs, state, node=None):
        if isinstance(f, VClass):
            yield from self.construct(f.name, args, kwargs, state, node)
            return
        if isinstance(f, VFunc):
            if f.qual.startswith("method:"):
                h = self.builtins.get(f.qual)
                if h is None:
                    raise Unsupported("container method %s on %r" % (f.qual, f.bound))
                yield from h(self, f.bound, args, kwargs, state, node)
                return
            fi = self.program.func(f.qual)
            if fi is not None:
                a = ([f.bound] if f.bound is not None else []) + list(args)
                yield from self.call_function(fi, a, kwargs, state, node)
                return
            h = self.builtins.get(f.qual)
            if h is None:
                raise Unsupported("call to %s" % f.qual)
            yield from h(self, args, kwargs, state, node)
            return
        if isinstance(f, VLambda):
            st = state.fork()
            saved = st.env
            st.env = dict(f.env)
            st.env.update({a.arg: v for a, v in zip(f.node.args.args, args)})
            for v, s2 in self.eval(f.node.body, st):
                s2 = s2.fork()
                s2.env = saved
                yield v, s2
            return
        raise Unsupported("call of %r" % (f,))

    def call_method(self, obj, name, args, kwargs, state, node=None):
        f = self.find_method(obj.cls, name)
        if f is None:
            raise Unsupported("no method %s.%s" % (obj.cls, name))
        if f.kind == "static":
            yield from self.call_function(f, list(args), kwargs, state, node)
        else:
            yield from self.call_function(f, [obj] + list(args), kwargs, state, node)

    def construct(self, cls, args, kwargs, state, node=None):
        if cls in EXC_PARENT:
            yield VOpaque("exc:" + cls), state
            return
        if self.ctor_hook is not None and state.env.get("__ctor_inline__") != cls:
            res = self.ctor_hook(self, cls, args, kwargs, state, node)
            if res is not None:
                yield from res
                return
        h = self.builtins.get("construct:" + cls)
        if h is not None:
            yield from h(self, args, kwargs, state, node)
            return
        ci = self.program.cls(cls)
        if ci is None:
            raise Unsupported("construct unknown class " + cls)
        new = self.program.method(ci.module, cls, "__new__")
        init = self.program.method(ci.module, cls, "__init__")
        if new is not None:
            for o, st in self.call_function(new, [VClass(cls)] + list(args), kwargs, state, node):
                if isinstance(o, Exc):
                    yield o, st
                    continue
                if isinstance(o, VObj) and o.cls == cls and init is not None:
                    for r, s2 in self.call_function(init, [o] + list(args), kwargs, st, node):
                        yield (r if isinstance(r, Exc) else o), s2
                else:
                    yield o, st
        else:
            st = state.fork()
            ref = st.allocate(cls)
            o = VObj(cls, ref)
            if init is None:
                yield o, st
                return
            for r, s2 in self.call_function(init, [o] + list(args), kwargs, st, node):
                yield (r if isinstance(r, Exc) else o), s2

    def bind_args(self, fi, args, kwargs, state):
        env = {}
        params = list(fi.params)
        if len(args) > len(params) and not fi.vararg:
            raise Unsupported("too many arguments for " + fi.qual)
        for p, a in zip(params, args):
            env[p] = a
        if fi.vararg:
            env[fi.vararg] = VTuple(args[len(params):])
        for k, v in kwargs.items():
            env[k] = v
        for p in params + fi.kwonly:
            if p not in env:
                if p not in fi.defaults:
                    raise Unsupported("missing argument %s for %s" % (p, fi.qual))
                d = fi.defaults[p]
                sub = State(self.schema)
                sub.env = {"__module__": fi.module}
                if isinstance(d, ast.Constant):
                    env[p] = self.const(d.value)
                else:
                    env[p] = self.builtins["__default__"](self, fi, p, d, state)
        return env

    def call_function(self, fi, args, kwargs, state, node=None):
        depth = state.env.get("__depth__", 0)
        if self.modular_hook is not None and depth >= 0:
            res = self.modular_hook(self, fi, args, kwargs, state, node)
            if res is not None:
                yield from res
                return
        if depth >= MAX_INLINE_DEPTH:
            raise Unsupported("inline depth exceeded at " + fi.qual)
        self.executed[fi.qual] = fi.sha  # body executed (inlined): the VCs depend on this source text
        stack = state.env.get("__stack__", ())
        if fi.qual in stack:
            raise Unsupported("recursive call to %s without a contract" % fi.qual)
        env = self.bind_args(fi, args, kwargs, state)
        st = state.fork()
        saved = st.env
        env["__module__"] = fi.module
        env["__depth__"] = depth + 1
        env["__stack__"] = stack + (fi.qual,)
        env["__func__"] = fi.qual
        if fi.cls:
            env["__class__"] = VClass(fi.cls)
        st.env = env
        for kind, payload, s2 in self.exec_block(fi.body(), st):
            s2 = s2.fork()
            s2.env = saved
            if kind == "return":
                yield payload, s2
            elif kind == "next":
                yield NONE, s2
            elif kind == "raise":
                yield payload, s2
            else:
                raise Unsupported("break/continue outside loop")

    # entry point used by the verifier ----------------------------------------------------
    def run(self, fi, args, state):
        self.executed[fi.qual] = fi.sha
        env = self.bind_args(fi, args, {}, state)
        env.update({"__module__": fi.module, "__depth__": 0, "__stack__": (fi.qual,), "__func__": fi.qual})
        if fi.cls:
            env["__class__"] = VClass(fi.cls)
        st = state.fork()
        st.env = env
        for kind, payload, s2 in self.exec_block(fi.body(), st):
            if kind == "next":
                yield "return", NONE, s2
            elif kind in ("return", "raise"):
                yield kind, payload, s2
            else:
                raise Unsupported("break/continue outside loop")


_QC = {}


def _has_quant(f):
    k = f.get_id()
    if k in _QC:
        return _QC[k][0]
    seen, stack, res = set(), [f], False
    while stack:
        x = stack.pop()
        if x.get_id() in seen:
            continue
        seen.add(x.get_id())
        if z3.is_quantifier(x):
            if x.is_lambda():
                stack.append(x.body())  # a lambda is a term, not a quantified formula
                continue
            res = True
            break
        stack.extend(x.children())
    _QC[k] = (res, f)  # keep f alive so the id is not reused
    return res


def _as_load(target):
    import copy
    t = copy.deepcopy(target)
    for n in ast.walk(t):
        if hasattr(n, "ctx"):
            n.ctx = ast.Load()
    return t


def _handler_names(h):
    if h.type is None:
        return None
    ts = h.type.elts if isinstance(h.type, ast.Tuple) else [h.type]
    out = []
    for t in ts:
        out.append(t.id if isinstance(t, ast.Name) else t.attr)
    return out
