"""Modular verification driver: checks each function under contract against its own
contract, using callee contracts at call sites, and discharges the obligations with z3.

Obligation ids: <qualname>/<kind>:<name>, kinds: post, inv, raises, no-raise, unexpected,
call-pre, frame, assert.  A function whose body leaves the supported subset yields
`undecided` obligations, never `refuted`.
"""
import ast
import os
import time
import traceback
import z3
from .sorts import *  # noqa
from .ops import Unsupported, Exc, simp
from .state import State, Container
from .engine import Engine, exc_isa, _has_quant
from . import builtins as B


class Ctx:
    """View of one symbolic state for writing specifications."""

    def __init__(self, eng, state, old=None):
        self.eng, self.st, self.old = eng, state, old

    def f(self, obj, field):
        """z3 value of obj.field (obj: VObj)."""
        return self.st.read(obj.cls, obj.ref, field)

    def fz(self, cls, ref, field):
        return self.st.read(cls, ref, field)

    def alive(self, obj):
        return self.st.is_alive(obj.cls, obj.ref)

    def alivez(self, cls, ref):
        return self.st.is_alive(cls, ref)

    def g(self, name):
        return self.st.glob(name)


class Contract:
    qual = None
    props = ()
    types = {}  # param -> type descriptor or list of alternative descriptors
    ret = None  # type descriptor of the result (needed when used modularly)
    modifies = ()  # 'new:Cls' | 'Cls.field' | global container name
    inv = ()  # names of global invariants assumed at entry and re-established at exit
    trusted = False  # contract is assumed (external / out of reach); body not verified
    may_raise = ()  # exception classes that may be raised for unspecified reasons
    bounded_only = False
    ctor = False

    def requires(self, c, a):
        return []

    def ensures(self, c, a, r):
        return []

    def raises(self, c, a):
        """[(ExcName, when-formula over the pre-state, label)]: raises exactly when."""
        return []

    def ghost(self, c, a, r):
        """ghost assignments on exit (assumptions about ghost functions at fresh objects)"""
        return []

    def exc_ensures(self, c, a, exc):
        """postconditions on exceptional exit (c.old = pre-state)."""
        return []


class Args:
    def __init__(self, d):
        self.__dict__.update(d)


class Obligation:
    def __init__(self, oid, pc, goal, axioms, note=""):
        self.oid, self.pc, self.goal, self.axioms, self.note = oid, list(pc), goal, axioms, note


class Verifier:
    def __init__(self, program, schema, contracts, spec, timeout_ms=10000):
        self.program, self.schema, self.contracts, self.spec = program, schema, contracts, spec
        self.timeout_ms = timeout_ms
        self.eng = Engine(program, schema, contracts, dict(B.H), timeout_ms)
        self.eng.modular_hook = self.modular
        self.eng.ctor_hook = self.modular_ctor
        self.eng.builtins["__loopinv__"] = self.loop_hook
        self.loops = getattr(spec, "loops", {})
        from .ops import divmod_axioms
        self.eng.global_axioms = list(spec.global_axioms()) + divmod_axioms()
        spec.install(self.eng)
        self.obls = []
        self.site_counter = {}
        self.disabled_contracts = set()

    # -- symbolic inputs ---------------------------------------------------------------------
    def make(self, t, state, name):
        k = t[0]
        if k == "none":
            return NONE
        if k == "notimpl":
            return NOTIMPL
        if k == "other":
            return VOpaque("other:" + name)
        if k in ("float", "dec"):
            return VNum(K_FLOAT if k == "float" else K_DEC, fresh(name, R))
        if k == "class":
            return VClass(t[1])
        if k == "obj":
            r = fresh(name, Ref(t[1]))
            state.assume(state.is_alive(t[1], r))
            return VObj(t[1], r)
        if k == "ituple":
            z = fresh(name, ITup)
            v = VITup(z)
            i = z3.Int("i!n")
            state.assume(v.len >= 0)
            state.assume(z3.ForAll([i], z3.Implies(z3.Or(i < 0, i >= v.len), z3.Select(v.arr, i) == 0)))
            return v
        if k == "map":
            z = fresh(name, sort_of(t))
            v = wrap(z, t)
            kk = z3.Const("k!n", sort_of(t[1]))
            state.assume(z3.ForAll([kk], z3.Implies(z3.Not(z3.Select(v.dom, kk)), z3.Select(v.val, kk) == default_of(sort_of(t[2])))))
            return v
        if k == "emptydict":
            return VLoc(state.new_loc(Container("dict", kt=None, vt=None, dom=None, val=None, default=None)))
        if k == "set":
            ks = sort_of(t[1])
            return VLoc(state.new_loc(Container("set", kt=t[1], dom=fresh(name, z3.ArraySort(ks, z3.BoolSort())))))
        if k == "tuple":
            return VTuple([self.make(x, state, "%s_%d" % (name, i)) for i, x in enumerate(t[1])])
        if k == "list":
            # a list of a fixed concrete length n of elements of type t[1]
            return VLoc(state.new_loc(Container("list", items=[self.make(t[1], state, "%s_%d" % (name, i)) for i in range(t[2])])))
        z = fresh(name, sort_of(t))
        return wrap(z, t)

    def ann_types(self, fi, p):
        ann = fi.annotations.get(p)
        if p == "cls":
            return [("class", fi.cls)]
        if p == "self" and ann is None:
            return [("obj", fi.cls)]
        if ann is None:
            raise Unsupported("no type for parameter %s of %s" % (p, fi.qual))
        return self.parse_ann(ann)

    def parse_ann(self, ann):
        s = ast.unparse(ann) if not isinstance(ann, str) else ann
        s = s.replace('"', "").replace("'", "")
        return self.parse_type(s)

    def parse_type(self, s):
        s = s.strip()
        simple = {"int": [("int",)], "float": [("float",)], "Numeric": [("int",), ("float",), ("dec",)], "bool": [("bool",)], "str": [("str",)],
                  "None": [("none",)], "Ratio": [("int",), ("float",), ("dec",)], "Offset": [("int",), ("float",), ("dec",)]}
        if s in simple:
            return simple[s]
        if s in self.schema.fields:
            return [("obj", s)]
        if s.startswith("Optional[") and s.endswith("]"):
            return self.parse_type(s[9:-1]) + [("none",)]
        if s.startswith("Union[") and s.endswith("]"):
            out = []
            for part in _split_top(s[6:-1]):
                out += self.parse_type(part)
            return out
        if " | " in s:
            out = []
            for part in s.split(" | "):
                out += self.parse_type(part)
            return out
        if s == "Tuple[int, ...]":
            return [("ituple",)]
        if s.startswith(("Mapping[", "Dict[")):
            inner = _split_top(s[s.index("[") + 1:-1])
            return [("map", self.parse_type(inner[0])[0], self.parse_type(inner[1])[0])]
        if s in ("Any", "object"):
            return self.spec.any_types()
        raise Unsupported("type annotation %s" % s)

    # -- applying a contract at a call site -----------------------------------------------------
    def modular(self, eng, fi, args, kwargs, state, node):
        K = self.contracts.get(fi.qual)
        if K is None or fi.qual in self.disabled_contracts:
            return None
        return self._apply(K, fi, args, kwargs, state, node)

    def modular_ctor(self, eng, cls, args, kwargs, state, node):
        ci = self.program.cls(cls)
        if ci is None:
            return None
        qual = ci.module + "." + cls
        K = self.contracts.get(qual)
        if K is None or qual in self.disabled_contracts:
            return None
        init = self.program.method(ci.module, cls, "__init__")
        return self._apply(K, init, [NONE] + list(args), kwargs, state, node, qual=qual)

    def _apply(self, K, fi, args, kwargs, state, node, qual=None):
        eng = self.eng
        env = eng.bind_args(fi, args, kwargs, state)
        if qual:
            env.pop("self", None)
        a = Args({k: v for k, v in env.items()})
        fq = qual or fi.qual
        pre = Ctx(eng, state)
        caller = state.env.get("__func__", "?")
        line = getattr(node, "lineno", 0)
        n = self.site_counter.setdefault((self.current, fq, line), len([k for k in self.site_counter if k[0] == self.current and k[1] == fq]))
        site = "%s#%d" % (fq.replace("measured.", ""), n)
        if not self.spec.applicable(K, a):
            yield from self._inline(fi, args, kwargs, state, node, qual)
            return
        invs = K.inv_for(a) if hasattr(K, "inv_for") else K.inv
        mods = K.modifies_for(a) if hasattr(K, "modifies_for") else K.modifies
        for name in invs:
            for nm, f in self.spec.invariant(name, pre):
                self.add("call-pre", "%s:inv:%s" % (site, nm), state, f)
        for nm, f in K.requires(pre, a):
            self.add("call-pre", "%s:%s" % (site, nm), state, f)
        whens = list(K.raises(pre, a))
        for exc, when, label in whens:
            if when is None:
                continue
            w = simp(when)
            if z3.is_false(w):
                continue
            if eng.feasible(state, w):
                s2 = state.fork()
                s2.assume(w)
                yield Exc(exc, "from " + fq), s2
        for exc in K.may_raise:
            yield Exc(exc, "from " + fq), state.fork()
        st = state.fork()
        for exc, when, label in whens:
            if when is not None:
                st.assume(z3.Not(when))
        if not eng.feasible(st):
            return
        # havoc
        for m in mods:
            if m.startswith("new:"):
                cls = m[4:]
                old_alive = st.alive_array(cls)
                st.alive[cls] = fresh("alive_" + cls, old_alive.sort())
                r = z3.Const("r!fr", Ref(cls))
                st.assume(z3.ForAll([r], z3.Implies(z3.Select(old_alive, r), z3.Select(st.alive[cls], r))))
                for fld in self.schema.fields.get(cls, {}):
                    old_arr = st.field_array(cls, fld)
                    new_arr = fresh("H_%s_%s" % (cls, fld), old_arr.sort())
                    st.heap[(cls, fld)] = new_arr
                    st.assume(z3.ForAll([r], z3.Implies(z3.Select(old_alive, r), z3.Select(new_arr, r) == z3.Select(old_arr, r))))
            elif m in self.schema.globals:
                c = st.glob(m).clone()
                if c.kind in ("dict", "dict2"):
                    c.dom = fresh("G_%s_dom" % m, c.dom.sort())
                    c.val = fresh("G_%s_val" % m, c.val.sort())
                else:
                    c.dom = fresh("G_%s" % m, c.dom.sort())
                st.locs[m] = c
            else:
                cls, fld = m.split(".")
                st.heap[(cls, fld)] = fresh("H_%s_%s" % (cls, fld), st.field_array(cls, fld).sort())
            if m.startswith("new:"):
                for fld in self.schema.fields.get(m[4:], {}):
                    st.writes.add("%s.%s" % (m[4:], fld))
            else:
                st.writes.add(m)
        ret = K.ret(a) if callable(K.ret) else K.ret
        alts = ret if isinstance(ret, list) else [ret]
        for ri, rt in enumerate(alts):
            s9 = st.fork() if len(alts) > 1 else st
            result = self.make(rt, s9, "ret_" + fq.split(".")[-1]) if rt is not None else NONE
            post = Ctx(eng, s9, old=pre)
            for nm, f in K.ensures(post, a, result):
                s9.assume(f)
            for name in invs:
                for nm, f in self.spec.invariant(name, post):
                    s9.assume(f)
            if len(alts) > 1 and not eng.feasible(s9):
                continue
            yield result, s9

    def _inline(self, fi, args, kwargs, state, node, qual):
        """contract not applicable to these arguments: execute the body instead"""
        if qual:
            cls = qual.split(".")[-1]
            st = state.fork()
            st.env = dict(state.env)
            st.env["__ctor_inline__"] = cls
            for v, s2 in self.eng.construct(cls, args[1:], kwargs, st, node):
                s2 = s2.fork()
                s2.env = dict(s2.env)
                s2.env.pop("__ctor_inline__", None)
                yield v, s2
            return
        self.disabled_contracts.add(fi.qual)
        try:
            yield from list(self.eng.call_function(fi, args, kwargs, state, node))
        finally:
            self.disabled_contracts.discard(fi.qual)

    # -- loops with sidecar invariants ----------------------------------------------------------
    def havoc(self, st, modifies):
        for m in modifies:
            if m.startswith("new:"):
                cls = m[4:]
                old_alive = st.alive_array(cls)
                st.alive[cls] = fresh("alive_" + cls, old_alive.sort())
                r = z3.Const("r!fr", Ref(cls))
                st.assume(z3.ForAll([r], z3.Implies(z3.Select(old_alive, r), z3.Select(st.alive[cls], r))))
                for fld in self.schema.fields.get(cls, {}):
                    old_arr = st.field_array(cls, fld)
                    new_arr = fresh("H_%s_%s" % (cls, fld), old_arr.sort())
                    st.heap[(cls, fld)] = new_arr
                    st.assume(z3.ForAll([r], z3.Implies(z3.Select(old_alive, r), z3.Select(new_arr, r) == z3.Select(old_arr, r))))
                    st.writes.add("%s.%s" % (cls, fld))
            elif m in self.schema.globals:
                c = st.glob(m).clone()
                if c.kind in ("dict", "dict2"):
                    c.dom = fresh("G_%s_dom" % m, c.dom.sort())
                    c.val = fresh("G_%s_val" % m, c.val.sort())
                else:
                    c.dom = fresh("G_%s" % m, c.dom.sort())
                st.locs[m] = c
                st.writes.add(m)
            else:
                cls, fld = m.split(".")
                st.heap[(cls, fld)] = fresh("H_%s_%s" % (cls, fld), st.field_array(cls, fld).sort())
                st.writes.add(m)

    def loop_hook(self, eng, node, it, st):
        qual = st.env.get("__func__")
        fi = self.program.func(qual) if qual else None
        if fi is None:
            return None
        loops = sorted([n for n in ast.walk(fi.node) if isinstance(n, (ast.For, ast.While))], key=lambda n: (n.lineno, n.col_offset))
        ordinal = [i for i, n in enumerate(loops) if n is node]
        if not ordinal:
            return None
        L = self.loops.get((qual, ordinal[0]))
        if L is None:
            return None
        sp = B.iter_space(eng, it, st)
        if sp.kind == "index" and getattr(sp, "seq", None) is not None:
            return self._loop_index(L, ordinal[0], eng, node, sp, st)
        if sp.kind != "keys":
            return None
        return self._loop(L, ordinal[0], eng, node, sp, st)

    def _loop_inv(self, L, st, entry, V):
        c = Ctx(self.eng, st, old=entry)
        out = []
        for name in L.inv_names:
            out += [("inv:" + nm, f) for nm, f in self.spec.invariant(name, c)]
        out += list(L.inv(c, Args(st.env), V))
        return out

    def _rehavoc_locals(self, L, node, st):
        assigned = set()
        for n in ast.walk(ast.Module(body=node.body, type_ignores=[])):
            if isinstance(n, ast.Name) and isinstance(n.ctx, ast.Store):
                assigned.add(n.id)
        for t in ast.walk(node.target):
            if isinstance(t, ast.Name):
                assigned.discard(t.id)
        for name in sorted(assigned):
            if name in st.env:
                st.env[name] = self.make(B.type_of_value(st.env[name]), st, name)

    def _loop_roles(self, node, sp, st):
        """what a loop spec may refer to without naming locals of the function: the iterated sequence, the
        variables carried around the loop (assigned in the body, defined at entry), the target names of the
        enclosing loops, and the environment at loop entry"""
        assigned = set()
        for n in ast.walk(ast.Module(body=node.body, type_ignores=[])):
            if isinstance(n, ast.Name) and isinstance(n.ctx, ast.Store):
                assigned.add(n.id)
        own = [t.id for t in ast.walk(node.target) if isinstance(t, ast.Name)]
        carried = sorted(x for x in assigned if x in st.env and x not in own)
        outer = []
        fi = self.program.func(st.env.get("__func__"))
        if fi is not None:
            for anc in ast.walk(fi.node):
                if isinstance(anc, ast.For) and anc is not node and any(ch is node for ch in ast.walk(anc)):
                    outer.append([t.id for t in ast.walk(anc.target) if isinstance(t, ast.Name)])
        return Args({"seq": getattr(sp, "seq", None), "carried": carried, "own": own, "outer": outer, "entry_env": dict(st.env)})

    def _loop_index(self, L, ordinal, eng, node, sp, st):
        """`for x in <sequence of unknown length>` with a sidecar invariant inv(c, env, i) over the number i
        of elements already processed (0 <= i <= len)."""
        n = sp.n
        entry = Ctx(eng, st.fork())
        entry.loop = self._loop_roles(node, sp, st)
        for f in L.lemmas(Ctx(eng, st, old=entry), Args(st.env), z3.IntVal(0), None):
            st.assume(f)
        for nm, f in self._loop_inv(L, st, entry, z3.IntVal(0)):
            self.add("loop-init", "%d:%s" % (ordinal, nm), st, f)
        s1 = st.fork()
        s1.env = dict(s1.env)
        self.havoc(s1, L.modifies)
        self._rehavoc_locals(L, node, s1)
        i = fresh("idx!w", z3.IntSort())
        s1.assume(z3.And(i >= 0, i < n))
        for nm, f in self._loop_inv(L, s1, entry, i):
            s1.assume(f)
        B.bind_target(eng, node.target, sp.fn(i), s1.env)
        for f in L.lemmas(Ctx(eng, s1, old=entry), Args(s1.env), i, None):
            s1.assume(f)
        for kind, payload, s2 in eng.exec_block(node.body, s1):
            if kind in ("next", "continue"):
                for nm, f in self._loop_inv(L, s2, entry, i + 1):
                    self.add("loop-step", "%d:%s" % (ordinal, nm), s2, f)
            elif kind == "break":
                yield "next", None, s2
            else:
                yield kind, payload, s2
        s3 = st.fork()
        s3.env = dict(s3.env)
        self.havoc(s3, L.modifies)
        self._rehavoc_locals(L, node, s3)
        for nm, f in self._loop_inv(L, s3, entry, n):
            s3.assume(f)
        for f in L.lemmas(Ctx(eng, s3, old=entry), Args(s3.env), n, None):
            s3.assume(f)
        yield "next", None, s3

    def _loop(self, L, ordinal, eng, node, sp, st):
        ks = sort_of(sp.kt)
        entry = Ctx(eng, st.fork())
        entry.loop = self._loop_roles(node, sp, st)
        V0 = z3.K(ks, z3.BoolVal(False))
        for nm, f in self._loop_inv(L, st, entry, V0):
            self.add("loop-init", "%d:%s" % (ordinal, nm), st, f)
        # arbitrary iteration
        s1 = st.fork()
        s1.env = dict(s1.env)
        self.havoc(s1, L.modifies)
        self._rehavoc_locals(L, node, s1)
        V = fresh("V", z3.ArraySort(ks, z3.BoolSort()))
        kk = z3.Const("k!V", ks)
        s1.assume(z3.ForAll([kk], z3.Implies(z3.Select(V, kk), z3.Select(sp.dom, kk))))
        k = fresh("key", ks)
        s1.assume(z3.Select(sp.dom, k))
        s1.assume(z3.Not(z3.Select(V, k)))
        for nm, f in self._loop_inv(L, s1, entry, V):
            s1.assume(f)
        B.bind_target(eng, node.target, sp.fn(k), s1.env)
        for f in L.lemmas(Ctx(eng, s1, old=entry), Args(s1.env), V, k):
            s1.assume(f)
        for kind, payload, s2 in eng.exec_block(node.body, s1):
            if kind in ("next", "continue"):
                for nm, f in self._loop_inv(L, s2, entry, z3.Store(V, k, z3.BoolVal(True))):
                    self.add("loop-step", "%d:%s" % (ordinal, nm), s2, f)
            elif kind == "break":
                yield "next", None, s2
            else:
                yield kind, payload, s2
        # after the loop
        s3 = st.fork()
        s3.env = dict(s3.env)
        self.havoc(s3, L.modifies)
        self._rehavoc_locals(L, node, s3)
        for nm, f in self._loop_inv(L, s3, entry, sp.dom):
            s3.assume(f)
        yield "next", None, s3

    # -- obligations -----------------------------------------------------------------------------
    def add(self, kind, name, state, goal, note=""):
        oid = "%s/%s:%s" % (self.current.replace("measured.", ""), kind, name)
        self.obls.append(Obligation(oid, state.pc, goal, list(state.axioms), note))

    # -- verifying one function ----------------------------------------------------------------------
    def verify(self, qual):
        """Returns dict: {'function', 'sha', 'results': {oid: {...}}, 'error': str|None, 'paths': n}"""
        K = self.contracts[qual]
        fi = self.program.func(getattr(K, "target", None) or qual)
        ctor_cls = None
        if fi is None and self.program.cls(qual.split(".")[-1]) is not None:
            ctor_cls = qual.split(".")[-1]
            fi = self.program.method(self.program.cls(ctor_cls).module, ctor_cls, "__init__")
        self.ctor_cls = ctor_cls
        out = {"function": qual, "results": {}, "error": None, "paths": 0, "props": list(K.props), "vacuity": []}
        if fi is None:
            out["error"] = "function not found in source"
            return out
        out["sha"], out["line"] = fi.sha, fi.lineno
        self.current = qual
        self.eng.target = qual
        self.obls = []
        self.site_counter = {}
        self.eng.executed = {}
        t0 = time.time()
        try:
            params = list(fi.params)
            if ctor_cls:
                params = params[1:]
            alts = []
            for p in params:
                t = K.types.get(p)
                if t is None:
                    t = self.ann_types(fi, p)
                alts.append(t if isinstance(t, list) else [t])
            import itertools
            combos = list(itertools.product(*alts))
            for combo in combos:
                if not self.spec.combo_ok(K, dict(zip(params, combo))):
                    continue
                self._verify_combo(K, fi, params, combo, out)
        except Unsupported as e:
            out["error"] = "unsupported: %s" % e
        except Exception as e:  # engine bug: report as internal error, never as violation
            out["error"] = "internal: %s\n%s" % (e, traceback.format_exc())
        out["gen_s"] = round(time.time() - t0, 3)
        out["deps"] = dict(self.eng.executed)
        self._solve(out)
        out["wall_s"] = round(time.time() - t0, 3)
        return out

    def _verify_combo(self, K, fi, params, combo, out):
        eng = self.eng
        st = State(self.schema)
        vals = [self.make(t, st, p) for p, t in zip(params, combo)]
        a = Args(dict(zip(params, vals)))
        pre = Ctx(eng, st)
        invs = K.inv_for(a) if hasattr(K, "inv_for") else K.inv
        mods = K.modifies_for(a) if hasattr(K, "modifies_for") else K.modifies
        for name in invs:
            for nm, f in self.spec.invariant(name, pre):
                st.assume(f)
        for nm, f in K.requires(pre, a):
            st.assume(f)
        tag = ",".join(_tname(t) for t in combo)
        feas = eng.feasible(st)
        out["vacuity"].append({"combo": tag, "requires_satisfiable": bool(feas)})
        if not feas:
            return
        pre_state = st.fork()
        pre = Ctx(eng, pre_state)
        whens = list(K.raises(pre, a))
        npaths = 0
        if self.ctor_cls:
            st.env = {"__module__": fi.module, "__depth__": 0, "__stack__": (), "__func__": K.qual, "__ctor_inline__": self.ctor_cls}
            runner = ((("raise" if isinstance(v, Exc) else "return"), v, s9) for v, s9 in eng.construct(self.ctor_cls, vals, {}, st))
        else:
            runner = eng.run(fi, vals, st)
        for kind, payload, s2 in runner:
            npaths += 1
            post = Ctx(eng, s2, old=pre)
            if kind == "return":
                for exc, when, label in whens:
                    if when is not None:
                        self.add("no-raise", "%s:%s" % (exc, label), s2, z3.Not(when))
                for f in K.ghost(post, a, payload):
                    s2.assume(f)
                for nm, f in K.ensures(post, a, payload):
                    self.add("post", nm, s2, f)
                if not getattr(K, "lemma", False):
                    for name in invs:
                        for nm, f in self.spec.invariant(name, post):
                            self.add("inv", nm, s2, f)
                    self._frame(K, s2, pre_state, mods)
            else:
                matching = [(e, w, l) for e, w, l in whens if exc_isa(payload.cls, e)]
                if not matching and not any(exc_isa(payload.cls, e) for e in K.may_raise):
                    self.add("unexpected", payload.cls, s2, z3.BoolVal(False), note=payload.info)
                    continue
                ws = [w for e, w, l in matching if w is not None]
                if ws and not any(exc_isa(payload.cls, e) for e in K.may_raise):
                    self.add("raises", payload.cls, s2, z3.Or(ws))
                for nm, f in K.exc_ensures(post, a, payload):
                    self.add("exc-post", "%s:%s" % (payload.cls, nm), s2, f)
        out["paths"] += npaths

    def _frame(self, K, st, pre_state, mods=None):
        allowed = set()
        mods = K.modifies if mods is None else mods
        for m in mods:
            if m.startswith("new:"):
                cls = m[4:]
                # only freshly allocated objects of cls may have been written
                old_alive = pre_state.alive_array(cls)
                r = z3.Const("r!fr", Ref(cls))
                for fld in self.schema.fields.get(cls, {}):
                    allowed.add("%s.%s" % (cls, fld))
                    if "%s.%s" % (cls, fld) in mods:
                        continue  # declared as written on existing objects too: the contract must describe it
                    if (cls, fld) in st.heap and (cls, fld) in pre_state.heap and not z3.eq(st.heap[(cls, fld)], pre_state.heap[(cls, fld)]):
                        self.add("frame", "old-%s.%s-unchanged" % (cls, fld), st,
                                 z3.ForAll([r], z3.Implies(z3.Select(old_alive, r),
                                                           z3.Select(st.heap[(cls, fld)], r) == z3.Select(pre_state.heap[(cls, fld)], r))))
            else:
                allowed.add(m)
        extra = sorted(w for w in st.writes if w not in allowed)
        real = []
        for w in extra:
            # a write that provably left the component unchanged is fine only if syntactically absent; be strict
            real.append(w)
        if real:
            self.add("frame", "writes-within-modifies", st, z3.BoolVal(False), note="writes outside modifies: %s" % real)

    # -- solving ---------------------------------------------------------------------------------------
    def _solve_group(self, oid):
        obs = self._groups[oid]
        status, ms, model_txt, note = "discharged", 0.0, None, ""
        strategies = set()
        for ob in obs:
            r, dt, smodel, reason = self._check(ob)
            ms += dt
            if r == z3.unsat:
                strategies.add(reason)
                reason = ""
            if r == z3.sat:
                status = "refuted"
                try:
                    model_txt = self.spec.describe_model(smodel, ob)
                except Exception as e:
                    model_txt = "model unavailable: %s" % e
                note = ob.note
                break
            if r == z3.unknown:
                status = "undecided"
                note = reason
                break  # one undischarged path decides the status of the obligation
        order = ["plain-fast", "plain", "qfi", "pre", "qf", "qfix"]
        strat = max(strategies, key=order.index) if strategies and status == "discharged" else None
        return oid, {"status": status, "ms": round(ms, 1), "paths": len(obs), "backend": "z3-%s" % z3.get_version_string(),
                     "model": model_txt, "note": note, "strategy": strat}

    def _solve(self, out):
        """Every obligation (all its paths) is solved in a forked child of its own, at most VERIF_INNER at a time,
        under a wall-clock deadline: z3 does not always honour its own timeout (a tactic can spin for an hour), and
        a hung query must end as `undecided`, never as a hung check."""
        import pickle
        import select
        import signal
        groups = {}
        for ob in self.obls:
            groups.setdefault(ob.oid, []).append(ob)
        self._groups = groups
        inner = max(1, int(os.environ.get("VERIF_INNER", "1")))
        only = getattr(self, "only", None)  # second attempt: just the obligations that failed the first time
        pending = [oid for oid in groups if only is None or oid in only]
        running = {}  # pid -> (oid, read fd, start, deadline seconds)
        full_budget = self.timeout_ms
        failed = [0]

        def finish(pid, oid, res):
            running.pop(pid, None)
            out["results"][oid] = res
            if res["status"] != "discharged" and "canary_" not in oid:
                failed[0] += 1
                if failed[0] == 3:
                    # a function with three undischarged obligations is not going to verify: the rest get a short budget
                    # (what is provable quickly is still proved), and after ten the remainder is not attempted
                    self.timeout_ms = max(1000, full_budget // 8)

        while pending or running:
            if failed[0] >= 10 and pending:
                for oid in pending:
                    out["results"][oid] = {"status": "undecided", "ms": 0.0, "paths": len(groups[oid]), "backend": "z3-%s" % z3.get_version_string(), "model": None,
                                           "note": "not attempted: 10 obligations of this function are already undischarged", "strategy": None}
                pending = []
                continue
            while pending and len(running) < inner:
                oid = pending.pop(0)
                T = self.timeout_ms / 1000.0
                rfd, wfd = os.pipe()
                pid = os.fork()
                if pid == 0:
                    os.close(rfd)
                    try:
                        data = pickle.dumps(self._solve_group(oid)[1])
                    except BaseException as e:  # noqa
                        data = pickle.dumps({"status": "undecided", "ms": 0.0, "paths": len(groups[oid]), "backend": "z3", "model": None,
                                             "note": "internal error in the solver process: %s" % e, "strategy": None})
                    try:
                        with os.fdopen(wfd, "wb") as f:
                            f.write(data)
                    finally:
                        os._exit(0)
                os.close(wfd)
                # one path may run through the whole portfolio (about 12 budgets); the others are discharged quickly
                running[pid] = (oid, rfd, time.time(), 14 * T + 4 * len(groups[oid]) + 20)
            fds = {v[1]: pid for pid, v in running.items()}
            ready, _, _ = select.select(list(fds), [], [], 0.5)
            for rfd in ready:
                pid = fds[rfd]
                oid = running[pid][0]
                chunks = []
                while True:
                    c = os.read(rfd, 1 << 16)
                    if not c:
                        break
                    chunks.append(c)
                os.close(rfd)
                os.waitpid(pid, 0)
                try:
                    res = pickle.loads(b"".join(chunks))
                except Exception as e:
                    res = {"status": "undecided", "ms": 0.0, "paths": len(groups[oid]), "backend": "z3", "model": None,
                           "note": "solver process died: %s" % e, "strategy": None}
                finish(pid, oid, res)
            now = time.time()
            for pid, (oid, rfd, t0, dl) in list(running.items()):
                if now - t0 > dl:
                    try:
                        os.kill(pid, signal.SIGKILL)
                        os.waitpid(pid, 0)
                    except OSError:
                        pass
                    os.close(rfd)
                    finish(pid, oid, {"status": "undecided", "ms": round((now - t0) * 1000, 1), "paths": len(groups[oid]), "backend": "z3-%s" % z3.get_version_string(),
                                      "model": None, "note": "wall-clock limit (%.0fs): the solver did not return" % dl, "strategy": None})
        self.timeout_ms = full_budget


_SOLVER_SELF = None


def _solve_group_entry(oid):
    return _SOLVER_SELF._solve_group(oid)


_intro_n = [0]


def intro(goal):
    """Skolemise the universal quantifiers of a goal by hand (fresh constants): proving
    the instance at fresh constants proves the universal statement."""
    if z3.is_quantifier(goal) and goal.is_forall():
        vs = []
        for j in range(goal.num_vars()):
            _intro_n[0] += 1
            vs.append(z3.Const("%s!g%d" % (goal.var_name(j), _intro_n[0]), goal.var_sort(j)))
        return intro(z3.substitute_vars(goal.body(), *reversed(vs)))
    if z3.is_and(goal):
        return z3.And([intro(ch) for ch in goal.children()])
    if z3.is_implies(goal):
        return z3.Implies(goal.arg(0), intro(goal.arg(1)))
    if z3.is_app_of(goal, z3.Z3_OP_ITE) and goal.sort() == z3.BoolSort():
        return z3.If(goal.arg(0), intro(goal.arg(1)), intro(goal.arg(2)))
    if z3.is_eq(goal):
        x, y = goal.arg(0), goal.arg(1)
        # extensionality by hand: equal arrays / finite-map values are pointwise equal
        for a, b in ((x, y), (y, x)):
            if z3.is_app_of(b, z3.Z3_OP_ITE):
                return z3.And(z3.Implies(b.arg(0), intro(a == b.arg(1))), z3.Implies(z3.Not(b.arg(0)), intro(a == b.arg(2))))
        srt = x.sort()
        if srt.kind() == z3.Z3_ARRAY_SORT:
            _intro_n[0] += 1
            k = z3.Const("k!g%d" % _intro_n[0], srt.domain())
            return z3.simplify(z3.Select(x, k)) == z3.simplify(z3.Select(y, k))
        if srt.kind() == z3.Z3_DATATYPE_SORT and srt.name().startswith("Map_") and srt.num_constructors() == 1:
            return z3.And([intro(z3.simplify(srt.accessor(0, j)(x)) == z3.simplify(srt.accessor(0, j)(y))) for j in range(srt.constructor(0).arity())])
    return goal


def _flatten(fs):
    out, stack = [], list(fs)
    while stack:
        f = stack.pop()
        if z3.is_and(f):
            stack.extend(f.children())
        else:
            out.append(f)
    return out


_GC = {}


def _consts_of(f):
    k = f.get_id()
    hit = _GC.get(k)
    if hit is not None:
        return hit[0]
    out, seen, stack = {}, set(), [f]
    while stack:
        x = stack.pop()
        i = x.get_id()
        if i in seen:
            continue
        seen.add(i)
        if z3.is_quantifier(x):
            stack.append(x.body())
            continue
        if z3.is_app(x):
            if x.num_args() == 0:
                if x.decl().kind() == z3.Z3_OP_UNINTERPRETED:
                    out.setdefault(x.sort().name(), {})[i] = x
            else:
                stack.extend(x.children())
    _GC[k] = (out, f)
    return out


_GT = {}


def _obj_terms_of(f):
    """ground sub-terms of uninterpreted (object) sorts, e.g. H_Unit_prefix[H_Quantity_unit[self]]"""
    k = f.get_id()
    hit = _GT.get(k)
    if hit is not None:
        return hit[0]
    out, seen = {}, set()

    def walk(x, depth):
        """returns True when x is ground (no bound variable below)"""
        if z3.is_var(x):
            return False
        if z3.is_quantifier(x):
            walk(x.body(), depth + 1)
            return False
        i = x.get_id()
        ground = True
        for ch in x.children():
            if not walk(ch, depth):
                ground = False
        if ground and i not in seen and x.num_args() > 0 and (
                x.sort().kind() == z3.Z3_UNINTERPRETED_SORT
                or (x.sort().kind() == z3.Z3_DATATYPE_SORT and x.sort().name().startswith("Map_") and x.decl().kind() != z3.Z3_OP_DT_CONSTRUCTOR)):
            seen.add(i)
            out.setdefault(x.sort().name(), {})[i] = x
        return ground

    walk(f, 0)
    _GT[k] = (out, f)
    return out


def _ground_consts(fs):
    """0-ary uninterpreted constants by sort name"""
    out = {}
    for f in fs:
        for s, d in _consts_of(f).items():
            out.setdefault(s, {}).update(d)
    return out


def ext_witnesses(fs, cap=7):
    """Skolemised extensionality for the finite-map terms of a query: for each pair (X, Y) of
    ground Map terms a fresh key k with  X == Y  or  X and Y differ at k.  Valid formulas."""
    maps = {}
    for f in fs:
        for sname, d in _obj_terms_of(f).items():
            if sname.startswith("Map_"):
                for i, t in d.items():
                    maps.setdefault(sname, {})[i] = t
    clauses, ks = [], {}
    for sname, d in maps.items():
        ts = list(d.values())[:cap]
        for i in range(len(ts)):
            for j in range(i + 1, len(ts)):
                X, Y = ts[i], ts[j]
                srt = X.sort()
                dom, val = srt.accessor(0, 0), srt.accessor(0, 1)
                _intro_n[0] += 1
                k = z3.Const("k!x%d" % _intro_n[0], dom(X).sort().domain())
                ks.setdefault(k.sort().name(), []).append(k)
                clauses.append(z3.Or(X == Y, z3.Select(dom(X), k) != z3.Select(dom(Y), k), z3.Select(val(X), k) != z3.Select(val(Y), k)))
    return clauses, ks


def preinstantiate(hyps, goal_i, rounds=2, cap=6, terms=None, extra_terms=None):
    """Manual trigger set (DESIGN 2.6): instantiate single-variable universal hypotheses at
    the skolem constants of the goal and at the object-sorted constants of the query.
    Instances of valid hypotheses are valid: this only helps the solver."""
    if terms is None:
        consts = _ground_consts([goal_i])
        allc = _ground_consts(list(hyps) + [goal_i])
        terms = {}
        for sname, d in allc.items():
            if sname in ("Int", "Real", "Bool", "String"):
                continue  # objects: the constants of the goal first, then every constant of the sort
            first = list(consts.get(sname, {}).values())
            rest = [x for k, x in d.items() if k not in consts.get(sname, {})]
            terms[sname] = first + rest[:cap]
        # compound object terms of the goal and of the ground hypotheses (field reads)
        for f in [goal_i] + [h for h in _flatten(hyps) if not z3.is_quantifier(h)]:
            for sname, d in _obj_terms_of(f).items():
                lst = terms.setdefault(sname, [])
                for t in d.values():
                    if len(lst) < cap + 6 and all(not z3.eq(t, x) for x in lst):
                        lst.append(t)
        for sname in ("Int",):
            terms[sname] = ([c for c in consts.get(sname, {}).values() if "!g" in c.decl().name()]
                            + [c for c in allc.get(sname, {}).values() if "!w" in c.decl().name()])[:cap + 2]
    if extra_terms:
        for sname, ts in extra_terms.items():
            terms.setdefault(sname, []).extend(ts)
    extra, frontier = [], _flatten(hyps)
    seen = set()
    for _ in range(rounds):
        new = []
        for f in frontier:
            if z3.is_quantifier(f) and f.is_forall() and f.num_vars() == 1:
                for t in terms.get(f.var_sort(0).name(), []):
                    inst = z3.substitute_vars(f.body(), t)
                    k = inst.get_id()
                    if k not in seen:
                        seen.add(k)
                        new.append(inst)
            elif z3.is_implies(f) and z3.is_quantifier(f.arg(1)) and f.arg(1).is_forall() and f.arg(1).num_vars() == 1:
                q = f.arg(1)
                for t in terms.get(q.var_sort(0).name(), []):
                    new.append(z3.Implies(f.arg(0), z3.substitute_vars(q.body(), t)))
        extra += new
        frontier = _flatten(new)
        if len(extra) > 6000:
            break
    return extra


def real_fn_instances(fs):
    """ground instances of the defining axioms of the uninterpreted real functions (A4):
    sqrt(t) >= 0 and sqrt(t)**2 == t for t >= 0; x**(1/2) likewise; rpow(x, n) unfolding for the
    integer terms n, n-1 occurring together"""
    from .ops import rsqrt, rpowr, rpow
    out, seen, stack = [], set(), list(fs)
    pows, logs_seen = {}, {}
    while stack:
        x = stack.pop()
        i = x.get_id()
        if i in seen or (z3.is_quantifier(x) and not x.is_lambda()):
            continue
        seen.add(i)
        if z3.is_quantifier(x):
            continue
        if z3.is_app(x):
            nm = x.decl().name()
            if nm == "rsqrt" and x.num_args() == 1:
                t = x.arg(0)
                out.append(z3.Implies(t >= 0, z3.And(x >= 0, x * x == t)))
            elif nm == "rpowr" and x.num_args() == 2:
                b, e = x.arg(0), x.arg(1)
                out.append(z3.Implies(z3.And(e * 2 == 1, b >= 0), z3.And(x >= 0, x * x == b)))
                out.append(z3.Implies(e == 0, x == 1))
                out.append(z3.Implies(b > 0, x > 0))
            elif nm == "rpow" and x.num_args() == 2:
                pows[i] = x
            elif nm == "rlog" and x.num_args() == 1 and len(logs_seen) < 8:
                logs_seen[i] = x
            stack.extend(x.children())
    logs = [x for x in logs_seen.values()]
    for i in range(len(logs)):
        a = logs[i].arg(0)
        out.append(z3.Implies(a > 1, logs[i] > 0))
        for j in range(i + 1, len(logs)):
            b2 = logs[j].arg(0)
            # log is strictly increasing on the positive reals
            out.append(z3.Implies(z3.And(a > 0, b2 > 0), z3.And((a < b2) == (logs[i] < logs[j]), (a == b2) == (logs[i] == logs[j]))))
    for p in pows.values():
        b, n = p.arg(0), p.arg(1)
        out.append(z3.Implies(n == 0, p == 1))
        out.append(z3.Implies(n == 1, p == b))
        out.append(z3.Implies(n == 2, p == b * b))
        out.append(z3.Implies(n == -1, p * b == 1))
        for q in pows.values():
            if q is not p and z3.eq(q.arg(0), b):
                out.append(z3.Implies(z3.And(n == q.arg(1) + 1, z3.Or(b != 0, q.arg(1) >= 0)), p == q * b))
    return out[:300]


def divmod_instances(fs):
    """ground instances of the floor-division axioms (pyvc.ops.divmod_axioms) for the
    pydiv/pymod terms and the integer products occurring in fs"""
    from .ops import pydiv, pymod
    dm, muls, seen = {}, {}, set()
    stack = list(fs)
    while stack:
        x = stack.pop()
        i = x.get_id()
        if i in seen or z3.is_quantifier(x):
            continue
        seen.add(i)
        if z3.is_app(x):
            if x.decl().name() in ("pydiv", "pymod") and x.num_args() == 2:
                dm[(x.arg(0).get_id(), x.arg(1).get_id())] = (x.arg(0), x.arg(1))
            elif z3.is_mul(x) and x.num_args() == 2 and x.sort() == z3.IntSort():
                muls[i] = x
            stack.extend(x.children())
    out = []
    divisors = {}
    for a, n in dm.values():
        divisors[n.get_id()] = n
        out.append(z3.Implies(n != 0, z3.And(a == n * pydiv(a, n) + pymod(a, n),
                                             z3.Implies(n > 0, z3.And(pymod(a, n) >= 0, pymod(a, n) < n)),
                                             z3.Implies(n < 0, z3.And(pymod(a, n) <= 0, pymod(a, n) > n)))))
    for m in muls.values():
        for n in divisors.values():
            for k in (0, 1):
                if z3.eq(m.arg(k), n):
                    a = m.arg(1 - k)
                    out.append(z3.Implies(n != 0, z3.And(pydiv(a * n, n) == a, pymod(a * n, n) == 0,
                                                         pydiv(m, n) == a, pymod(m, n) == 0)))
    return out[:200]


def _check_one(hyps, goal, timeout, pre=True):
    s = z3.Solver()
    s.set(timeout=timeout)
    g = intro(goal)
    s.add(*hyps)
    s.add(*real_fn_instances([h for h in hyps if not z3.is_quantifier(h)] + [g]))
    if pre:
        s.add(*preinstantiate(hyps, g))
    s.add(z3.Not(g))
    t = time.time()
    r = s.check()
    return r, (time.time() - t) * 1000, s


def _portfolio(self, ob):
    """Try the obligation with growing hypothesis sets.  `unsat` from any subset of the
    hypotheses is a proof; `sat` counts only with the full set."""
    from .engine import _has_quant
    base = list(self.eng.global_axioms) + list(ob.axioms) + list(self.spec.lemma_instances(ob))
    full = base + list(ob.pc)
    qf = [f for f in full if not _has_quant(f)]
    total = 0.0
    T = self.timeout_ms
    last = None
    g = intro(ob.goal)
    plan = [("plain", 300), ("qfi", 3000), ("plain", 1500), ("pre", 3000), ("qf", 3000), ("plain", T), ("qfix", T), ("pre", T)]
    hint = getattr(self, "hints", {}).get(ob.oid)
    if hint:
        # the strategy that discharged this obligation on the baseline goes first (ledger hint)
        plan = [(hint, 4 * T)] + plan
    for strat, budget in plan:
        if strat == "qf":
            if len(qf) == len(full):
                continue
            r, dt, s = _check_one(qf, ob.goal, budget, pre=False)
        elif strat in ("qfi", "qfix"):
            # quantifier-free core: ground hypotheses plus hand instances of the universal
            # ones at the constants of the query; a subset of valid consequences, so unsat is a proof
            ext, ks = ext_witnesses([g] + [h for h in _flatten(full) if not z3.is_quantifier(h)]) if strat == "qfix" else ([], {})
            inst = preinstantiate(full, g, extra_terms=ks)
            core = [f for f in _flatten(list(full) + inst) if not _has_quant(f)] + ext
            core += divmod_instances(core + [g]) + real_fn_instances(core + [g])
            s = z3.Solver()
            s.set(timeout=budget)
            s.add(*core)
            s.add(z3.Not(g))
            t0 = time.time()
            r = s.check()
            dt = (time.time() - t0) * 1000
        else:
            r, dt, s = _check_one(full, ob.goal, budget, pre=(strat == "pre"))
        total += dt
        if r == z3.unsat:
            if strat in ("qfi", "qfix", "qf") and os.environ.get("VERIF_CROSS_DIR"):
                _dump_for_cross_check(s, ob, strat)
            return r, total, None, ("plain-fast" if strat == "plain" and budget <= 300 else strat)
        if strat in ("plain", "pre"):
            last = (r, s)
            if r == z3.sat:
                return r, total, s.model(), ""
    r, s = last
    return r, total, None, s.reason_unknown()


def _dump_for_cross_check(s, ob, strat):
    """thorough tier: a sample of the quantifier-free cores that z3 refuted is written out in SMT-LIB 2 for a second solver"""
    import zlib
    try:
        every = int(os.environ.get("VERIF_CROSS_EVERY", "1"))
        h = zlib.crc32(ob.oid.encode())
        if h % every:
            return
        text = s.to_smt2()
        if len(text) > 3_000_000:
            return
        d = os.environ["VERIF_CROSS_DIR"]
        os.makedirs(d, exist_ok=True)
        with open(os.path.join(d, "%08x_%d.smt2" % (h, os.getpid())), "w") as f:
            f.write("; obligation %s (strategy %s)\n" % (ob.oid, strat))
            f.write(text)
    except Exception:
        pass


Verifier._check = _portfolio


def _tname(t):
    return t[1] if t[0] in ("obj", "class") else t[0]


def _split_top(s):
    parts, depth, cur = [], 0, ""
    for ch in s:
        if ch == "[":
            depth += 1
        elif ch == "]":
            depth -= 1
        if ch == "," and depth == 0:
            parts.append(cur.strip())
            cur = ""
        else:
            cur += ch
    if cur.strip():
        parts.append(cur.strip())
    return parts
