"""z3 sorts and Python-side symbolic values used by the pyvc symbolic executor.

Encoding assumptions (DESIGN.md 2.2): A3 ints are mathematical; A4 float/Decimal are
reals tagged with a kind; A6 dict = finite map (dom,val) with val normalised to a default
outside dom so that z3 equality is extensional equality; tuples of ints of unknown length
are (len, arr) with arr normalised to 0 outside [0,len).
"""
import itertools
import z3

I, R, B, S = z3.IntSort(), z3.RealSort(), z3.BoolSort(), z3.StringSort()

Kind, (K_INT, K_FLOAT, K_DEC) = z3.EnumSort("Kind", ["K_INT", "K_FLOAT", "K_DEC"])

_Num = z3.Datatype("Num")
_Num.declare("mk_num", ("nkind", Kind), ("nval", R))
Num = _Num.create()

_IT = z3.Datatype("ITuple")
_IT.declare("mk_it", ("ilen", I), ("iarr", z3.ArraySort(I, I)))
ITup = _IT.create()

_OS = z3.Datatype("OptStr")
_OS.declare("onone")
_OS.declare("osome", ("oget", S))
OptStr = _OS.create()

StrSeq = z3.SeqSort(S)

_REFS = {}


def Ref(cls):
    if cls not in _REFS:
        _REFS[cls] = z3.DeclareSort(cls)
    return _REFS[cls]


_MAPS = {}


def MapSort(ks, vs):
    """Datatype for an immutable finite-map value with key sort ks and value sort vs."""
    key = (str(ks), str(vs))
    if key not in _MAPS:
        name = "Map_%s_%s" % (str(ks).replace(" ", "_"), str(vs).replace(" ", "_"))
        d = z3.Datatype(name)
        d.declare("mk_" + name, ("dom_" + name, z3.ArraySort(ks, B)), ("val_" + name, z3.ArraySort(ks, vs)))
        _MAPS[key] = d.create()
    return _MAPS[key]


def map_parts(msort):
    c = msort.constructor(0)
    return c, msort.accessor(0, 0), msort.accessor(0, 1)


_fresh = itertools.count()


def fresh(prefix, sort):
    return z3.Const("%s!%d" % (prefix, next(_fresh)), sort)


def default_of(sort):
    """A canonical default element of a sort (value stored outside a map's domain)."""
    if sort == I:
        return z3.IntVal(0)
    if sort == R:
        return z3.RealVal(0)
    if sort == B:
        return z3.BoolVal(False)
    if sort == S:
        return z3.StringVal("")
    if sort == Num:
        return Num.mk_num(K_INT, z3.RealVal(0))
    # uninterpreted / datatype sorts: one fixed constant per sort
    return z3.Const("dflt_" + sort.name().replace(" ", "_"), sort)


# --------------------------------------------------------------------------------------
# Python-side symbolic values


class V:
    pass


class VInt(V):
    def __init__(self, z):
        self.z = z3.IntVal(z) if isinstance(z, int) else z

    def __repr__(self):
        return "VInt(%s)" % self.z


class VBool(V):
    def __init__(self, z):
        self.z = z3.BoolVal(z) if isinstance(z, bool) else z

    def __repr__(self):
        return "VBool(%s)" % self.z


class VNum(V):
    """A Numeric: kind in {int,float,Decimal} and a real value (A4, A5)."""

    def __init__(self, kind, val):
        self.kind, self.val = kind, val

    @property
    def z(self):
        return Num.mk_num(self.kind, self.val)

    @staticmethod
    def of(z):
        return VNum(Num.nkind(z), Num.nval(z))

    def __repr__(self):
        return "VNum(%s,%s)" % (self.kind, self.val)


class VStr(V):
    def __init__(self, z):
        self.z = z3.StringVal(z) if isinstance(z, str) else z

    def __repr__(self):
        return "VStr(%s)" % self.z


class VOptStr(V):
    """Optional[str] read from the heap (symbolic none/some)."""

    def __init__(self, z):
        self.z = z


class VNone(V):
    def __repr__(self):
        return "VNone"


class VNotImpl(V):
    def __repr__(self):
        return "VNotImplemented"


NONE, NOTIMPL = VNone(), VNotImpl()


class VObj(V):
    def __init__(self, cls, ref):
        self.cls, self.ref = cls, ref

    def __repr__(self):
        return "VObj(%s,%s)" % (self.cls, self.ref)


class VTuple(V):
    def __init__(self, items):
        self.items = list(items)

    def __repr__(self):
        return "VTuple(%r)" % (self.items,)


class VITup(V):
    def __init__(self, z):
        self.z = z

    @property
    def len(self):
        return ITup.ilen(self.z)

    @property
    def arr(self):
        return ITup.iarr(self.z)


class VMap(V):
    """Immutable map value (dom, val). kt / vt are type descriptors."""

    def __init__(self, kt, vt, dom, val):
        self.kt, self.vt, self.dom, self.val = kt, vt, dom, val


class VLoc(V):
    """Reference to a mutable container in State.locs."""

    def __init__(self, key):
        self.key = key

    def __repr__(self):
        return "VLoc(%r)" % (self.key,)


class VClass(V):
    def __init__(self, name):
        self.name = name

    def __repr__(self):
        return "VClass(%s)" % self.name


class VFunc(V):
    def __init__(self, qual, bound=None):
        self.qual, self.bound = qual, bound


class VModule(V):
    def __init__(self, name):
        self.name = name


class VOpaque(V):
    """A value the executor does not model (formatted strings, exception payloads)."""

    def __init__(self, what=""):
        self.what = what

    def __repr__(self):
        return "VOpaque(%s)" % self.what


class VLambda(V):
    def __init__(self, node, env):
        self.node, self.env = node, env


class VIter(V):
    """A lazy iterable description used by comprehensions, any/all/tuple/sorted.
    kind: 'ituple' (src VITup), 'zip' (list of VITup), 'items'/'keys'/'values' (src VMap),
    'list' (python list of V), 'enumerate' (inner VIter)."""

    def __init__(self, kind, src):
        self.kind, self.src = kind, src


class VGen(V):
    """An unevaluated generator expression (closure over env)."""

    def __init__(self, node, env):
        self.node, self.env = node, env


# --------------------------------------------------------------------------------------
# type descriptors: ('int',) ('bool',) ('num',) ('str',) ('optstr',) ('ituple',)
# ('obj', cls) ('map', kt, vt) ('strseq',) ('tuple', [t..]) ('none',)


def sort_of(t):
    k = t[0]
    if k == "int":
        return I
    if k == "bool":
        return B
    if k == "num":
        return Num
    if k == "real":
        return R
    if k == "str":
        return S
    if k == "optstr":
        return OptStr
    if k == "ituple":
        return ITup
    if k == "obj":
        return Ref(t[1])
    if k == "strseq":
        return StrSeq
    if k == "map":
        return MapSort(sort_of(t[1]), sort_of(t[2]))
    if k == "dt":
        return t[1]
    if k == "tup":
        return TupSort(t[1])
    if k == "seq":
        return z3.SeqSort(sort_of(t[1]))
    raise NotImplementedError("no sort for type %r" % (t,))


_TUPS = {}


def TupSort(ts):
    key = tuple(str(sort_of(x)) for x in ts)
    if key not in _TUPS:
        name = "Tup_" + "_".join(k.replace(" ", "_").replace("(", "").replace(")", "").replace(",", "") for k in key)
        d = z3.Datatype(name)
        d.declare("mk_" + name, *[("f%d_%s" % (i, name), sort_of(x)) for i, x in enumerate(ts)])
        _TUPS[key] = d.create()
    return _TUPS[key]


def wrap(z, t):
    """z3 expression of sort_of(t) -> Python-side value."""
    k = t[0]
    if k == "int":
        return VInt(z)
    if k == "bool":
        return VBool(z)
    if k == "num":
        return VNum.of(z)
    if k == "real":
        return VNum(K_FLOAT, z)
    if k == "str":
        return VStr(z)
    if k == "optstr":
        return VOptStr(z)
    if k == "ituple":
        return VITup(z)
    if k == "obj":
        return VObj(t[1], z)
    if k == "map":
        _, dom, val = map_parts(sort_of(t))
        return VMap(t[1], t[2], dom(z), val(z))
    if k == "strseq":
        return VOpaqueZ(z, t)
    if k == "dt":
        return VOpaqueZ(z, t)
    if k == "tup":
        srt = sort_of(t)
        return VTuple([wrap(srt.accessor(0, i)(z), x) for i, x in enumerate(t[1])])
    if k == "seq":
        return VSeq(z, t[1])
    raise NotImplementedError(t)


class VOpaqueZ(V):
    """A z3 value of a sort with no Python-level operations (carried around, compared)."""

    def __init__(self, z, t):
        self.z, self.t = z, t


class VSeq(V):
    """A list/tuple of unknown length: z3 sequence of elements of type descriptor et."""

    def __init__(self, z, et):
        self.z, self.et = z, et

    def __repr__(self):
        return "VSeq(%s)" % self.z


class VEmptyDict(V):
    """An empty dict whose key/value types are not known yet ({} literal)."""


def unwrap(v, t):
    """Python-side value -> z3 expression of sort_of(t)."""
    k = t[0]
    if k == "map" and hasattr(v, "m"):
        v = v.m
    if isinstance(v, VEmptyDict) and k == "map":
        ks, vs = sort_of(t[1]), sort_of(t[2])
        c, _, _ = map_parts(sort_of(t))
        return c(z3.K(ks, z3.BoolVal(False)), z3.K(ks, default_of(vs)))
    if k == "optstr":
        if isinstance(v, VNone):
            return OptStr.onone
        if isinstance(v, VStr):
            return OptStr.osome(v.z)
        if isinstance(v, VOptStr):
            return v.z
        raise TypeError("optstr from %r" % (v,))
    if k == "num":
        if isinstance(v, VInt):
            return Num.mk_num(K_INT, z3.ToReal(v.z))
        if isinstance(v, VBool):
            return Num.mk_num(K_INT, z3.If(v.z, z3.RealVal(1), z3.RealVal(0)))
        return v.z
    if k == "real":
        if isinstance(v, VInt):
            return z3.ToReal(v.z)
        return v.val
    if k == "map":
        c, _, _ = map_parts(sort_of(t))
        return c(v.dom, v.val)
    if k == "seq":
        if isinstance(v, VSeq):
            return v.z
        if isinstance(v, VTuple):
            parts = [z3.Unit(unwrap(x, t[1])) for x in v.items]
            if not parts:
                return z3.Empty(sort_of(t))
            return parts[0] if len(parts) == 1 else z3.Concat(*parts)
        raise TypeError("sequence from %r" % (v,))
    if k == "strseq" and isinstance(v, VTuple):
        z = z3.Empty(StrSeq)
        for x in v.items:
            z = z3.Concat(z, z3.Unit(x.z))
        return z
    if k == "tup":
        srt = sort_of(t)
        if not isinstance(v, VTuple) or len(v.items) != len(t[1]):
            raise TypeError("tuple shape mismatch for %r" % (t,))
        return srt.constructor(0)(*[unwrap(x, tt) for x, tt in zip(v.items, t[1])])
    if k == "int" and isinstance(v, VBool):
        return z3.If(v.z, z3.IntVal(1), z3.IntVal(0))
    if k == "obj":
        if not isinstance(v, VObj):
            raise TypeError("expected %s object, got %r" % (t[1], v))
        return v.ref
    return v.z
