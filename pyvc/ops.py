"""Primitive operations on symbolic values: truthiness, arithmetic (A3-A5), comparisons,
merging.  Each function that may raise returns a list of alternatives
[(guard, value_or_Exc)] so the executor can fork."""
import z3
from .sorts import *  # noqa

# uninterpreted real functions (A4): integer power, real power, log, sqrt
rpow = z3.Function("rpow", R, I, R)
rpowr = z3.Function("rpowr", R, R, R)
rlog = z3.Function("rlog", R, R)  # natural log
rsqrt = z3.Function("rsqrt", R, R)


class Unsupported(Exception):
    pass


class Exc(V):
    """A raised exception (class name only; payload is not modelled, A8)."""

    def __init__(self, cls, info=""):
        self.cls, self.info = cls, info

    def __repr__(self):
        return "Exc(%s)" % self.cls


def is_concrete_bool(z):
    if z3.is_true(z):
        return True
    if z3.is_false(z):
        return False
    return None


def simp(z):
    return z3.simplify(z)


def truth(v):
    """Python truthiness as a z3 Bool."""
    if isinstance(v, VBool):
        return v.z
    if isinstance(v, VInt):
        return v.z != 0
    if isinstance(v, VNum):
        return v.val != 0
    if isinstance(v, VStr):
        return z3.Length(v.z) > 0
    if isinstance(v, VOptStr):
        return z3.And(OptStr.is_osome(v.z), z3.Length(OptStr.oget(v.z)) > 0)
    if isinstance(v, VNone):
        return z3.BoolVal(False)
    if isinstance(v, (VObj, VClass, VFunc, VNotImpl, VModule)):
        return z3.BoolVal(True)  # no __bool__/__len__ on the modelled classes (checked by caller)
    if isinstance(v, VTuple):
        return z3.BoolVal(len(v.items) > 0)
    if isinstance(v, VITup):
        return v.len > 0
    if isinstance(v, VMap):
        return v.dom != z3.K(v.dom.sort().domain(), z3.BoolVal(False))
    if isinstance(v, VSeq):
        return z3.Length(v.z) > 0
    raise Unsupported("truth of %r" % (v,))


def mergeable(a, b):
    if type(a) is type(b):
        if isinstance(a, (VInt, VBool, VNum, VStr, VITup, VOptStr)):
            return True
        if isinstance(a, VObj):
            return a.cls == b.cls
        if isinstance(a, (VNone, VNotImpl)):
            return True
        if isinstance(a, VTuple) and len(a.items) == len(b.items):
            return all(mergeable(x, y) for x, y in zip(a.items, b.items))
        if isinstance(a, VMap):
            return a.kt == b.kt and a.vt == b.vt
    if isinstance(a, (VInt, VNum)) and isinstance(b, (VInt, VNum)):
        return True
    return False


def merge(c, a, b):
    """if c then a else b, for mergeable values."""
    if isinstance(a, VInt) and isinstance(b, VInt):
        return VInt(z3.If(c, a.z, b.z))
    if isinstance(a, (VInt, VNum)) and isinstance(b, (VInt, VNum)):
        a, b = to_num(a), to_num(b)
        return VNum(z3.If(c, a.kind, b.kind), z3.If(c, a.val, b.val))
    if isinstance(a, VBool):
        return VBool(z3.If(c, a.z, b.z))
    if isinstance(a, VStr):
        return VStr(z3.If(c, a.z, b.z))
    if isinstance(a, VOptStr):
        return VOptStr(z3.If(c, a.z, b.z))
    if isinstance(a, VITup):
        return VITup(z3.If(c, a.z, b.z))
    if isinstance(a, VObj):
        return VObj(a.cls, z3.If(c, a.ref, b.ref))
    if isinstance(a, (VNone, VNotImpl)):
        return a
    if isinstance(a, VTuple):
        return VTuple([merge(c, x, y) for x, y in zip(a.items, b.items)])
    if isinstance(a, VMap):
        return VMap(a.kt, a.vt, z3.If(c, a.dom, b.dom), z3.If(c, a.val, b.val))
    raise Unsupported("merge %r %r" % (a, b))


def to_num(v):
    if isinstance(v, VNum):
        return v
    if isinstance(v, VInt):
        return VNum(K_INT, z3.ToReal(v.z))
    if isinstance(v, VBool):
        return VNum(K_INT, z3.If(v.z, z3.RealVal(1), z3.RealVal(0)))
    raise Unsupported("to_num %r" % (v,))


def is_numeric(v):
    return isinstance(v, (VInt, VNum, VBool))


def _kind_join(a, b, force_float=False):
    """Result kind of a binary arithmetic op between kinds a and b (A5)."""
    k = z3.If(z3.Or(a == K_DEC, b == K_DEC), K_DEC, z3.If(z3.Or(a == K_FLOAT, b == K_FLOAT), K_FLOAT, K_INT))
    if force_float:
        k = z3.If(k == K_INT, K_FLOAT, k)
    return k


def _dec_float_clash(a, b):
    return z3.Or(z3.And(a == K_DEC, b == K_FLOAT), z3.And(a == K_FLOAT, b == K_DEC))


def int_pow(x, n):
    """x**n for z3 Real/Int x and concrete small int n >= 0."""
    r = None
    for _ in range(n):
        r = x if r is None else r * x
    return r if r is not None else (z3.IntVal(1) if x.sort() == I else z3.RealVal(1))


pydiv = z3.Function("pydiv", I, I, I)  # Python floor division by a non-constant divisor
pymod = z3.Function("pymod", I, I, I)  # Python modulo (sign follows the divisor)


def divmod_axioms():
    a, n = z3.Ints("a!dm n!dm")
    return [z3.ForAll([a, n], z3.Implies(n != 0, z3.And(a == n * pydiv(a, n) + pymod(a, n),
                                                        z3.Implies(n > 0, z3.And(pymod(a, n) >= 0, pymod(a, n) < n)),
                                                        z3.Implies(n < 0, z3.And(pymod(a, n) <= 0, pymod(a, n) > n)))),
                      patterns=[pydiv(a, n), pymod(a, n)]),
            # exact multiples: (a*n) // n == a and (a*n) % n == 0
            z3.ForAll([a, n], z3.Implies(n != 0, z3.And(pydiv(a * n, n) == a, pymod(a * n, n) == 0)),
                      patterns=[pydiv(a * n, n), pymod(a * n, n)])]


def _floordiv_const(a, b):
    # floor(a/b): for b>0 z3's a div b is floor. for b<0: floor(a/b) = floor((-a)/(-b)) = (-a) div (-b)
    return z3.If(b > 0, a / b, (-a) / (-b))


def _floordiv(a, b):
    if z3.is_int_value(b):
        return _floordiv_const(a, b)
    return pydiv(a, b)


def _pymod(a, b):
    if z3.is_int_value(b):
        return a - b * _floordiv_const(a, b)
    return pymod(a, b)


def arith(op, a, b):
    """Binary arithmetic on numeric values. Returns [(guard, value|Exc)]."""
    T = z3.BoolVal(True)
    if isinstance(a, VBool):
        a = VInt(z3.If(a.z, z3.IntVal(1), z3.IntVal(0)))
    if isinstance(b, VBool):
        b = VInt(z3.If(b.z, z3.IntVal(1), z3.IntVal(0)))
    if isinstance(a, VInt) and isinstance(b, VInt):
        if op == "Add":
            return [(T, VInt(a.z + b.z))]
        if op == "Sub":
            return [(T, VInt(a.z - b.z))]
        if op == "Mult":
            return [(T, VInt(a.z * b.z))]
        if op == "FloorDiv":
            return [(b.z == 0, Exc("ZeroDivisionError")), (b.z != 0, VInt(_floordiv(a.z, b.z)))]
        if op == "Mod":
            return [(b.z == 0, Exc("ZeroDivisionError")), (b.z != 0, VInt(_pymod(a.z, b.z)))]
        if op == "Div":
            return [(b.z == 0, Exc("ZeroDivisionError")),
                    (b.z != 0, VNum(K_FLOAT, z3.ToReal(a.z) / z3.ToReal(b.z)))]
        if op == "Pow":
            if z3.is_int_value(b.z) and b.z.as_long() >= 0:
                return [(T, VInt(int_pow(a.z, b.z.as_long())))]
            # int ** negative int is a float; nonneg stays int
            return [(b.z >= 0, VNum(K_INT, rpow(z3.ToReal(a.z), b.z))),
                    (z3.And(b.z < 0, a.z == 0), Exc("ZeroDivisionError")),
                    (z3.And(b.z < 0, a.z != 0), VNum(K_FLOAT, rpow(z3.ToReal(a.z), b.z)))]
        raise Unsupported("int op " + op)
    an, bn = to_num(a), to_num(b)
    clash = _dec_float_clash(an.kind, bn.kind)
    out = []
    if not z3.is_false(simp(clash)):
        out.append((clash, Exc("TypeError", "Decimal with float")))
    ok = z3.Not(clash)
    if op == "Add":
        out.append((ok, VNum(_kind_join(an.kind, bn.kind), an.val + bn.val)))
    elif op == "Sub":
        out.append((ok, VNum(_kind_join(an.kind, bn.kind), an.val - bn.val)))
    elif op == "Mult":
        out.append((ok, VNum(_kind_join(an.kind, bn.kind), an.val * bn.val)))
    elif op == "Div":
        out.append((z3.And(ok, bn.val == 0), Exc("ZeroDivisionError")))
        out.append((z3.And(ok, bn.val != 0), VNum(_kind_join(an.kind, bn.kind, True), an.val / bn.val)))
    elif op == "FloorDiv":
        out.append((z3.And(ok, bn.val == 0), Exc("ZeroDivisionError")))
        out.append((z3.And(ok, bn.val != 0),
                    VNum(_kind_join(an.kind, bn.kind), z3.ToReal(z3.ToInt(an.val / bn.val)))))
    elif op == "Pow":
        if isinstance(b, VInt):
            if z3.is_int_value(b.z) and 0 <= b.z.as_long() <= 4:
                out.append((ok, VNum(an.kind, int_pow(an.val, b.z.as_long()))))
            else:
                out.append((z3.And(ok, b.z < 0, an.val == 0), Exc("ZeroDivisionError")))
                out.append((z3.And(ok, z3.Or(b.z >= 0, an.val != 0)),
                            VNum(z3.If(z3.And(an.kind == K_INT, b.z < 0), K_FLOAT, an.kind), rpow(an.val, b.z))))
        else:
            out.append((ok, VNum(_kind_join(an.kind, bn.kind, True), rpowr(an.val, bn.val))))
    else:
        raise Unsupported("num op " + op)
    return out


def num_compare(op, a, b):
    if isinstance(a, VInt) and isinstance(b, VInt):
        x, y = a.z, b.z
    else:
        x, y = to_num(a).val, to_num(b).val
    return {"Eq": x == y, "NotEq": x != y, "Lt": x < y, "LtE": x <= y, "Gt": x > y, "GtE": x >= y}[op]
