"""Symbolic program state: path condition, environment, heap (field arrays), global and
local mutable containers, allocation sets, collected obligations."""
import copy
import itertools
import z3
from .sorts import (B, Ref, fresh, sort_of, default_of)

_loc_ids = itertools.count(1)
_epochs = itertools.count(1)


class Container:
    """A mutable dict / set / list.
    dict: kt, vt, dom (Array K Bool), val (Array K V), default in (None,'int','list','dict')
    set : kt, dom
    list: items (python list of V)  -- only concrete-length lists are modelled
    """

    def __init__(self, kind, **kw):
        self.kind = kind
        self.__dict__.update(kw)

    def clone(self):
        c = copy.copy(self)
        if self.kind == "list":
            c.items = list(self.items)
        return c


class Schema:
    """Field sorts per class and global containers; filled in by contracts/model.py."""

    def __init__(self):
        self.fields = {}  # cls -> {field: type descriptor}
        self.globals = {}  # 'Dimension._known' -> ('dict', kt, vt) | ('set', kt) | ('list', t)
        self.consts = {}  # module-global singleton objects: name -> ('obj', cls)
        self.class_attr = {}  # (cls, attr) -> global name, e.g. ('Unit','_known') -> 'Unit._known'


class State:
    def __init__(self, schema):
        self.schema = schema
        self.pc = []
        self.env = {}
        self.heap = {}  # (cls, field) -> z3 Array(Ref cls -> sort)
        self.alive = {}  # cls -> z3 Array(Ref cls -> Bool)
        self.locs = {}  # key -> Container
        self.writes = set()  # heap fields / globals written (syntactic frame bookkeeping)
        self.obligations = []  # shared list (not copied on fork)
        self.axioms = []  # shared list of lemma instances (valid formulas)
        self.notes = []
        self.epoch = next(_epochs)  # one per root state (verification run of one parameter combination)
        self.cleared = frozenset()  # memoised functions whose cache_clear() ran on this path (C08)

    # -- forking -----------------------------------------------------------------------
    def fork(self):
        s = State.__new__(State)
        s.schema = self.schema
        s.pc = list(self.pc)
        s.env = dict(self.env)
        s.heap = dict(self.heap)
        s.alive = dict(self.alive)
        s.locs = {k: c.clone() for k, c in self.locs.items()}
        s.writes = self.writes  # shared
        s.obligations = self.obligations
        s.axioms = self.axioms
        s.notes = self.notes
        s.epoch = self.epoch
        s.cleared = self.cleared
        return s

    def assume(self, f):
        if z3.is_true(f):
            return
        self.pc.append(norm_quant(f))

    # -- heap --------------------------------------------------------------------------
    def field_array(self, cls, field):
        key = (cls, field)
        if key not in self.heap:
            t = self.schema.fields[cls][field]
            # the initial array has a fixed name: lazily creating it in two forks of one
            # execution yields the same term
            self.heap[key] = z3.Const("H0_%s_%s_e%d" % (cls, field, self.epoch), z3.ArraySort(Ref(cls), sort_of(t)))
        return self.heap[key]

    def read(self, cls, ref, field):
        return z3.Select(self.field_array(cls, field), ref)

    def write(self, cls, ref, field, z):
        self.heap[(cls, field)] = z3.Store(self.field_array(cls, field), ref, z)
        self.writes.add("%s.%s" % (cls, field))

    def alive_array(self, cls):
        if cls not in self.alive:
            self.alive[cls] = z3.Const("alive0_%s_e%d" % (cls, self.epoch), z3.ArraySort(Ref(cls), B))
        return self.alive[cls]

    def is_alive(self, cls, ref):
        return z3.Select(self.alive_array(cls), ref)

    def allocate(self, cls):
        r = fresh("new_" + cls, Ref(cls))
        self.assume(z3.Not(self.is_alive(cls, r)))
        self.alive[cls] = z3.Store(self.alive_array(cls), r, z3.BoolVal(True))
        return r

    # -- containers --------------------------------------------------------------------
    def new_loc(self, container):
        k = next(_loc_ids)
        self.locs[k] = container
        return k

    def glob(self, name):
        """Container of a global (class-level or module-level) mutable, created lazily."""
        if name not in self.locs:
            spec = self.schema.globals[name]
            if spec[0] == "dict":
                ks, vs = sort_of(spec[1]), sort_of(spec[2])
                self.locs[name] = Container(
                    "dict", kt=spec[1], vt=spec[2],
                    dom=z3.Const("G0_%s_dom_e%d" % (name, self.epoch), z3.ArraySort(ks, B)),
                    val=z3.Const("G0_%s_val_e%d" % (name, self.epoch), z3.ArraySort(ks, vs)),
                    default=spec[3] if len(spec) > 3 else None)
            elif spec[0] == "dict2":
                # two-level defaultdict(dict): key -> (key -> value)
                ks, vs = sort_of(spec[1]), sort_of(spec[2])
                self.locs[name] = Container(
                    "dict2", kt=spec[1], vt=spec[2],
                    dom=z3.Const("G0_%s_dom_e%d" % (name, self.epoch), z3.ArraySort(ks, z3.ArraySort(ks, B))),
                    val=z3.Const("G0_%s_val_e%d" % (name, self.epoch), z3.ArraySort(ks, z3.ArraySort(ks, vs))))
            elif spec[0] == "set":
                ks = sort_of(spec[1])
                self.locs[name] = Container("set", kt=spec[1], dom=z3.Const("G0_%s_e%d" % (name, self.epoch), z3.ArraySort(ks, B)))
            else:
                raise NotImplementedError(spec)
        return self.locs[name]

    def set_glob(self, name, **kw):
        c = self.glob(name).clone()
        c.__dict__.update(kw)
        self.locs[name] = c
        self.writes.add(name)


def empty_dom(ksort):
    return z3.K(ksort, z3.BoolVal(False))


def const_val(ksort, vsort):
    return z3.K(ksort, default_of(vsort))


_nq = itertools.count()


def norm_quant(f):
    """Not(Exists x. P) -> ForAll x. Not P   (so that hypotheses can be instantiated by hand)"""
    if z3.is_not(f) and z3.is_quantifier(f.arg(0)) and f.arg(0).is_exists():
        q = f.arg(0)
        vs = [z3.Const("%s!n%d" % (q.var_name(j), next(_nq)), q.var_sort(j)) for j in range(q.num_vars())]
        return z3.ForAll(vs, z3.Not(z3.substitute_vars(q.body(), *reversed(vs))))
    if z3.is_quantifier(f) and f.is_exists():
        # an assumed existential: name its witness (sound; helps hand instantiation)
        vs = [z3.Const("%s!w%d" % (f.var_name(j), next(_nq)), f.var_sort(j)) for j in range(f.num_vars())]
        return norm_quant(z3.substitute_vars(f.body(), *reversed(vs)))
    if z3.is_and(f):
        return z3.And([norm_quant(c) for c in f.children()])
    return f
