"""Contracts of the Python builtins and container operations the measured source uses
(assumption A6/A7).  Each handler is a generator of (value | Exc, state)."""
import ast
import z3
from .sorts import *  # noqa
from .ops import (Unsupported, Exc, truth, merge, mergeable, arith, num_compare, to_num, is_numeric, simp,
                  is_concrete_bool, rpow, rpowr, rlog, rsqrt)
from .state import Container, empty_dom

H = {}


def reg(name):
    def d(f):
        H[name] = f
        return f
    return d


def type_of_value(v):
    if isinstance(v, VObj):
        return ("obj", v.cls)
    if isinstance(v, (VInt, VBool)):
        return ("int",)
    if isinstance(v, VNum):
        return ("num",)
    if isinstance(v, VStr):
        return ("str",)
    if isinstance(v, VITup):
        return ("ituple",)
    if isinstance(v, VOpaqueZ):
        return v.t
    if isinstance(v, VSeq):
        return ("seq", v.et)
    if isinstance(v, VTuple):
        return ("tup", [type_of_value(x) for x in v.items])
    raise Unsupported("no storable type for %r" % (v,))


def cont(state, v):
    """The Container behind a VLoc."""
    if isinstance(v.key, str):
        return state.glob(v.key)
    return state.locs[v.key]


def put(state, v, c):
    state.locs[v.key] = c
    if isinstance(v.key, str):
        state.writes.add(v.key)


def as_map(eng, v, state):
    """(kt, vt, dom, val) of a dict-like value, or None for an untyped empty dict."""
    if isinstance(v, VMap):
        return v.kt, v.vt, v.dom, v.val
    if isinstance(v, VLoc):
        c = cont(state, v)
        if c.kind == "dict":
            if c.kt is None:
                return None
            return c.kt, c.vt, c.dom, c.val
    raise Unsupported("not a mapping: %r" % (v,))


@reg("__freeze__")
def freeze(eng, v, state):
    if isinstance(v, VLoc):
        c = cont(state, v)
        if c.kind == "dict":
            if c.kt is None:
                return VEmptyDict()
            return VMap(c.kt, c.vt, c.dom, c.val)
        if c.kind == "list":
            return VTuple([freeze(eng, x, state) for x in c.items])
    return v


# ---------------------------------------------------------------------------------------
# containers


@reg("__contains__")
def contains(eng, container, item, state):
    if isinstance(container, VLoc):
        c = cont(state, container)
        if c.kind in ("dict", "set"):
            if c.kt is None:
                yield VBool(False), state
                return
            yield VBool(z3.Select(c.dom, unwrap(item, c.kt))), state
            return
        if c.kind == "list":
            if not c.items:
                yield VBool(False), state
                return
            yield VBool(z3.Or([eng_eq(eng, item, x) for x in c.items])), state
            return
        if c.kind == "dict2":
            yield VBool(True), state  # defaultdict(dict): membership is not observable through [] (rows exist on demand)
            return
    if isinstance(container, VMap):
        yield VBool(z3.Select(container.dom, unwrap(item, container.kt))), state
        return
    if isinstance(container, VRow):
        c = state.glob(container.name)
        yield VBool(z3.Select(z3.Select(c.dom, container.key), unwrap(item, c.kt))), state
        return
    if isinstance(container, VStr) and isinstance(item, VStr):
        yield VBool(z3.Contains(container.z, item.z)), state
        return
    if isinstance(container, VTuple):
        yield VBool(z3.Or([eng_eq(eng, item, x) for x in container.items]) if container.items else z3.BoolVal(False)), state
        return
    raise Unsupported("in %r" % (container,))


def eng_eq(eng, a, b):
    """Structural/identity equality for values without user-defined __eq__."""
    if isinstance(a, VObj) and isinstance(b, VObj):
        return a.ref == b.ref if a.cls == b.cls else z3.BoolVal(False)
    if is_numeric(a) and is_numeric(b):
        return num_compare("Eq", a, b)
    if isinstance(a, VStr) and isinstance(b, VStr):
        return a.z == b.z
    if isinstance(a, VITup) and isinstance(b, VITup):
        return a.z == b.z
    if isinstance(a, VTuple) and isinstance(b, VTuple):
        if len(a.items) != len(b.items):
            return z3.BoolVal(False)
        return z3.And([eng_eq(eng, x, y) for x, y in zip(a.items, b.items)]) if a.items else z3.BoolVal(True)
    if isinstance(a, VClass) and isinstance(b, VClass):
        return z3.BoolVal(a.name == b.name)
    if isinstance(a, (VNone, VNotImpl)) or isinstance(b, (VNone, VNotImpl)):
        return eng.identical(a, b)
    if isinstance(a, VOptStr) or isinstance(b, VOptStr):
        return unwrap(a, ("optstr",)) == unwrap(b, ("optstr",))
    if isinstance(a, VOpaqueZ) and isinstance(b, VOpaqueZ):
        return a.z == b.z
    if isinstance(a, VIter) and isinstance(b, VIter) and a.kind == b.kind == "keys" and isinstance(a.src, VMap) and isinstance(b.src, VMap):
        # d1.keys() == d2.keys(): set equality of the domains
        if a.src.kt != b.src.kt:
            return z3.BoolVal(False)
        k = z3.Const("k!ke", sort_of(a.src.kt))
        return z3.ForAll([k], z3.Select(a.src.dom, k) == z3.Select(b.src.dom, k))
    if isinstance(a, (VMap, VLoc, VEmptyDict)) and isinstance(b, (VMap, VLoc, VEmptyDict)):
        raise Unsupported("dict equality needs state")
    if type(a) is not type(b):
        return z3.BoolVal(False)
    raise Unsupported("equality of %r and %r" % (a, b))


class VRow(V):
    """_ratios[u]: a row of a two-level defaultdict(dict) global."""

    def __init__(self, name, key):
        self.name, self.key = name, key


@reg("__getitem__")
def getitem(eng, c, k, state):
    if isinstance(c, VLoc):
        co = cont(state, c)
        if co.kind == "dict":
            if co.kt is None:
                yield Exc("KeyError"), state
                return
            kz = unwrap(k, co.kt)
            present = z3.Select(co.dom, kz)
            if co.default == "int":
                st = state.fork()
                val = z3.If(present, z3.Select(co.val, kz), z3.IntVal(0))
                c2 = co.clone()
                c2.dom = z3.Store(co.dom, kz, z3.BoolVal(True))
                c2.val = z3.Store(co.val, kz, val)
                put(st, c, c2)
                yield wrap(val, co.vt), st
                return
            yield from eng.alternatives(state, [(present, wrap(z3.Select(co.val, kz), co.vt)),
                                                (z3.Not(present), Exc("KeyError"))])
            return
        if co.kind == "dict2":
            yield VRow(c.key, unwrap(k, co.kt)), state
            return
        if co.kind == "list":
            if isinstance(k, VInt) and z3.is_int_value(simp(k.z)):
                i = simp(k.z).as_long()
                if -len(co.items) <= i < len(co.items):
                    yield co.items[i], state
                else:
                    yield Exc("IndexError"), state
                return
            raise Unsupported("symbolic list index")
    if isinstance(c, VRow):
        co = state.glob(c.name)
        kz = unwrap(k, co.kt)
        present = z3.Select(z3.Select(co.dom, c.key), kz)
        yield from eng.alternatives(state, [(present, wrap(z3.Select(z3.Select(co.val, c.key), kz), co.vt)),
                                            (z3.Not(present), Exc("KeyError"))])
        return
    if isinstance(c, VMap):
        kz = unwrap(k, c.kt)
        present = z3.Select(c.dom, kz)
        yield from eng.alternatives(state, [(present, wrap(z3.Select(c.val, kz), c.vt)),
                                            (z3.Not(present), Exc("KeyError"))])
        return
    if isinstance(c, VTuple):
        if isinstance(k, VInt) and z3.is_int_value(simp(k.z)):
            i = simp(k.z).as_long()
            if -len(c.items) <= i < len(c.items):
                yield c.items[i], state
            else:
                yield Exc("IndexError"), state
            return
        raise Unsupported("symbolic tuple index")
    if isinstance(c, VITup):
        i = k.z
        idx = z3.If(i < 0, c.len + i, i)
        ok = z3.And(idx >= 0, idx < c.len)
        yield from eng.alternatives(state, [(ok, VInt(z3.Select(c.arr, idx))), (z3.Not(ok), Exc("IndexError"))])
        return
    if isinstance(c, VStr) and isinstance(k, VInt):
        ok = z3.And(k.z >= 0, k.z < z3.Length(c.z))
        yield from eng.alternatives(state, [(ok, VStr(z3.SubString(c.z, k.z, 1))), (z3.Not(ok), Exc("IndexError"))])
        return
    if isinstance(c, VSeq) and isinstance(k, VInt):
        n = z3.Length(c.z)
        idx = z3.If(k.z < 0, n + k.z, k.z)
        ok = z3.And(idx >= 0, idx < n)
        yield from eng.alternatives(state, [(ok, wrap(c.z[idx], c.et)), (z3.Not(ok), Exc("IndexError"))])
        return
    if isinstance(c, VOpaque):
        yield VOpaque("item"), state
        return
    raise Unsupported("subscript of %r" % (c,))


@reg("__setitem__")
def setitem(eng, c, k, v, state):
    if isinstance(c, VLoc):
        co = cont(state, c)
        if co.kind == "dict":
            st = state.fork()
            c2 = co.clone()
            if c2.kt is None:
                c2.kt, c2.vt = type_of_value(k), type_of_value(v)
                ks, vs = sort_of(c2.kt), sort_of(c2.vt)
                c2.dom, c2.val = empty_dom(ks), z3.K(ks, default_of(vs))
            kz = unwrap(k, c2.kt)
            c2.dom = z3.Store(c2.dom, kz, z3.BoolVal(True))
            c2.val = z3.Store(c2.val, kz, unwrap(v, c2.vt))
            put(st, c, c2)
            yield None, st
            return
    if isinstance(c, VRow):
        st = state.fork()
        co = st.glob(c.name).clone()
        kz = unwrap(k, co.kt)
        co.dom = z3.Store(co.dom, c.key, z3.Store(z3.Select(co.dom, c.key), kz, z3.BoolVal(True)))
        co.val = z3.Store(co.val, c.key, z3.Store(z3.Select(co.val, c.key), kz, unwrap(v, co.vt)))
        st.locs[c.name] = co
        st.writes.add(c.name)
        yield None, st
        return
    raise Unsupported("item assignment on %r" % (c,))


@reg("__delitem__")
def delitem(eng, c, k, state):
    if isinstance(c, VLoc):
        co = cont(state, c)
        if co.kind == "dict" and co.kt is not None:
            kz = unwrap(k, co.kt)
            present = z3.Select(co.dom, kz)
            for b, st in eng.branch(state, present):
                if not b:
                    yield Exc("KeyError"), st
                    continue
                c2 = cont(st, c).clone()
                c2.dom = z3.Store(c2.dom, kz, z3.BoolVal(False))
                c2.val = z3.Store(c2.val, kz, default_of(sort_of(c2.vt)))
                put(st, c, c2)
                yield None, st
            return
    raise Unsupported("del on %r" % (c,))


@reg("__slice__")
def slice_(eng, c, sl, state):
    if sl.step is not None:
        raise Unsupported("slice step")
    lo = eng.eval1(sl.lower, state) if sl.lower is not None else None
    hi = eng.eval1(sl.upper, state) if sl.upper is not None else None
    if isinstance(c, VStr):
        n = z3.Length(c.z)
        loz = lo.z if lo is not None else z3.IntVal(0)
        hiz = hi.z if hi is not None else n
        loz = z3.If(loz < 0, n + loz, loz)
        hiz = z3.If(hiz < 0, n + hiz, hiz)
        yield VStr(z3.SubString(c.z, loz, hiz - loz)), state
        return
    if isinstance(c, (VTuple,)) or (isinstance(c, VLoc) and cont(state, c).kind == "list"):
        items = c.items if isinstance(c, VTuple) else cont(state, c).items
        def cv(x):
            if x is None:
                return None
            z = simp(x.z)
            if not z3.is_int_value(z):
                raise Unsupported("symbolic slice bound")
            return z.as_long()
        res = items[cv(lo):cv(hi)]
        if isinstance(c, VTuple):
            yield VTuple(res), state
        else:
            st = state.fork()
            yield VLoc(st.new_loc(Container("list", items=list(res)))), st
        return
    raise Unsupported("slice of %r" % (c,))


@reg("__dictdisplay__")
def dictdisplay(eng, node, state):
    if any(k is None for k in node.keys):
        yield VOpaque("dict"), state
        return
    for ks, s1 in eng.eval_seq(node.keys, state):
        if isinstance(ks, Exc):
            yield ks, s1
            continue
        for vs, s2 in eng.eval_seq(node.values, s1):
            if isinstance(vs, Exc):
                yield vs, s2
                continue
            st = s2.fork()
            if not ks:
                yield VLoc(st.new_loc(Container("dict", kt=None, vt=None, dom=None, val=None, default=None))), st
                continue
            if isinstance(ks[0], VStr):
                yield VOpaque("json-dict"), st  # JSON payload dicts are not modelled
                continue
            kt, vt = type_of_value(ks[0]), type_of_value(vs[0])
            ksort, vsort = sort_of(kt), sort_of(vt)
            dom, val = empty_dom(ksort), z3.K(ksort, default_of(vsort))
            for k, v in zip(ks, vs):
                dom = z3.Store(dom, unwrap(k, kt), z3.BoolVal(True))
                val = z3.Store(val, unwrap(k, kt), unwrap(v, vt))
            yield VLoc(st.new_loc(Container("dict", kt=kt, vt=vt, dom=dom, val=val, default=None))), st


# ---------------------------------------------------------------------------------------
# iteration spaces and comprehensions


class Space:
    """kind 'concrete': items ; 'index': n, fn(i)->V ; 'keys': ksort, dom, fn(k)->V"""

    def __init__(self, kind, **kw):
        self.kind = kind
        self.__dict__.update(kw)


def iter_space(eng, v, state):
    if isinstance(v, VTuple):
        return Space("concrete", items=list(v.items))
    if isinstance(v, VLoc):
        c = cont(state, v)
        if c.kind == "list":
            return Space("concrete", items=list(c.items))
        if c.kind == "dict":
            if c.kt is None:
                return Space("concrete", items=[])
            return Space("keys", kt=c.kt, dom=c.dom, fn=lambda k, c=c: wrap(k, c.kt))
        if c.kind == "set":
            return Space("keys", kt=c.kt, dom=c.dom, fn=lambda k, c=c: wrap(k, c.kt))
    if isinstance(v, VEmptyDict):
        return Space("concrete", items=[])
    if isinstance(v, VMap):
        return Space("keys", kt=v.kt, dom=v.dom, fn=lambda k: wrap(k, v.kt))
    if isinstance(v, VITup):
        return Space("index", n=v.len, fn=lambda i: VInt(z3.Select(v.arr, i)))
    if isinstance(v, VSeq):
        return Space("index", n=z3.Length(v.z), fn=lambda i: wrap(v.z[i], v.et), seq=v)
    if isinstance(v, VIter):
        if v.kind == "zip":
            subs = [iter_space(eng, x, state) for x in v.src]
            if all(s.kind == "index" for s in subs):
                n = subs[0].n
                for s in subs[1:]:
                    n = z3.If(s.n < n, s.n, n)
                return Space("index", n=n, fn=lambda i: VTuple([s.fn(i) for s in subs]))
            if all(s.kind == "concrete" for s in subs):
                return Space("concrete", items=[VTuple(list(t)) for t in zip(*[s.items for s in subs])])
            raise Unsupported("zip of mixed spaces")
        if v.kind == "enumerate":
            sub = iter_space(eng, v.src, state)
            if sub.kind == "index":
                return Space("index", n=sub.n, fn=lambda i: VTuple([VInt(i), sub.fn(i)]))
            if sub.kind == "concrete":
                return Space("concrete", items=[VTuple([VInt(i), x]) for i, x in enumerate(sub.items)])
            raise Unsupported("enumerate over keys")
        if v.kind == "range":
            lo, hi = v.src
            if z3.is_int_value(simp(lo)) and z3.is_int_value(simp(hi)):
                return Space("concrete", items=[VInt(i) for i in range(simp(lo).as_long(), simp(hi).as_long())])
            return Space("index", n=hi - lo, fn=lambda i: VInt(lo + i))
        if v.kind in ("items", "keys", "values"):
            m = as_map(eng, v.src, state) if not isinstance(v.src, VRow) else None
            if isinstance(v.src, VRow):
                co = state.glob(v.src.name)
                kt, vt = co.kt, co.vt
                dom, val = z3.Select(co.dom, v.src.key), z3.Select(co.val, v.src.key)
            elif m is None:
                return Space("concrete", items=[])
            else:
                kt, vt, dom, val = m
            if v.kind == "items":
                return Space("keys", kt=kt, dom=dom, src_val=val, vt=vt, fn=lambda k: VTuple([wrap(k, kt), wrap(z3.Select(val, k), vt)]))
            if v.kind == "keys":
                return Space("keys", kt=kt, dom=dom, fn=lambda k: wrap(k, kt))
            return Space("keys", kt=kt, dom=dom, fn=lambda k: wrap(z3.Select(val, k), vt))
    raise Unsupported("iteration over %r" % (v,))


def bind_target(eng, target, v, env):
    if isinstance(target, ast.Name):
        env[target.id] = v
    elif isinstance(target, (ast.Tuple, ast.List)):
        items = eng.unpack(v, len(target.elts), target)
        for t, x in zip(target.elts, items):
            bind_target(eng, t, x, env)
    else:
        raise Unsupported("comprehension target")


def comprehend(eng, node, env, state):
    """Evaluate a single-clause comprehension symbolically.
    Returns (space, bound, cond_z3, elem_value(s)) for index/keys spaces or
    ('concrete', [(elem...)]) for concrete spaces."""
    if len(node.generators) != 1:
        raise Unsupported("nested comprehension")
    g = node.generators[0]
    st = state.fork()
    st.env = dict(env)
    st.env.setdefault("__module__", state.env["__module__"])
    it = eng.eval1(g.iter, st)
    sp = iter_space(eng, it, st)
    elts = [node.key, node.value] if isinstance(node, ast.DictComp) else [node.elt]
    if sp.kind == "concrete":
        out = []
        for item in sp.items:
            bind_target(eng, g.target, item, st.env)
            keep = True
            for cnd in g.ifs:
                cz = simp(truth(eng.eval1(cnd, st)))
                cb = is_concrete_bool(cz)
                if cb is None:
                    raise Unsupported("symbolic filter over a concrete sequence")
                keep = keep and cb
            if keep:
                out.append([eng.eval1(e, st) for e in elts])
        return sp, None, None, out
    bound = fresh("i" if sp.kind == "index" else "k", I if sp.kind == "index" else sort_of(sp.kt))
    bind_target(eng, g.target, sp.fn(bound), st.env)
    eng.pure_exc = []
    rng = z3.And(bound >= 0, bound < sp.n) if sp.kind == "index" else z3.Select(sp.dom, bound)
    st.assume(rng)
    conds = [truth(eng.eval1(cnd, st)) for cnd in g.ifs]
    cond = z3.And(conds) if conds else z3.BoolVal(True)
    st.assume(cond)
    vals = [eng.eval1(e, st) for e in elts]
    pexc = eng.pure_exc
    eng.pure_exc = []
    sp.rng, sp.pexc = rng, pexc
    return sp, bound, cond, vals


def with_pure_exc(eng, sp, bound, cond, state):
    """Fork off the executions where evaluating the element expression raises."""
    normal = state
    for g, exc in getattr(sp, "pexc", []):
        bad = z3.Exists([bound], z3.And(sp.rng, cond, g))
        if eng.feasible(state, bad):
            s2 = state.fork()
            s2.assume(bad)
            yield exc, s2
        normal = normal.fork()
        normal.assume(z3.ForAll([bound], z3.Implies(z3.And(sp.rng, cond), z3.Not(g))))
    yield None, normal


def gen_parts(g):
    if isinstance(g, VGen):
        return g.node, g.env
    raise Unsupported("expected generator")


@reg("__listcomp__")
def listcomp(eng, node, state):
    sp, bound, cond, vals = comprehend(eng, node, state.env, state)
    if sp.kind == "concrete":
        st = state.fork()
        yield VLoc(st.new_loc(Container("list", items=[v[0] for v in vals]))), st
        return
    yield VComp(sp, bound, cond, vals[0]), state


class VComp(V):
    """A symbolic comprehension result (sequence over an index or key space)."""

    def __init__(self, sp, bound, cond, elem):
        self.sp, self.bound, self.cond, self.elem = sp, bound, cond, elem


@reg("__dictcomp__")
def dictcomp(eng, node, state):
    sp, bound, cond, vals = comprehend(eng, node, state.env, state)
    if sp.kind == "concrete":
        st = state.fork()
        if not vals:
            yield VLoc(st.new_loc(Container("dict", kt=None, vt=None, dom=None, val=None, default=None))), st
            return
        kt, vt = type_of_value(vals[0][0]), type_of_value(vals[0][1])
        ks, vs = sort_of(kt), sort_of(vt)
        dom, val = empty_dom(ks), z3.K(ks, default_of(vs))
        for k, v in vals:
            dom = z3.Store(dom, unwrap(k, kt), z3.BoolVal(True))
            val = z3.Store(val, unwrap(k, kt), unwrap(v, vt))
        yield VLoc(st.new_loc(Container("dict", kt=kt, vt=vt, dom=dom, val=val, default=None))), st
        return
    if sp.kind != "keys":
        raise Unsupported("dict comprehension over an index space")
    k, v = vals
    kz = unwrap(k, sp.kt)
    if not z3.eq(simp(kz), bound):
        raise Unsupported("dict comprehension whose key is not the iterated key")
    vt = type_of_value(v)
    vs = sort_of(vt)
    for exc, st in with_pure_exc(eng, sp, bound, cond, state):
        if exc is not None:
            yield exc, st
            continue
        st = st.fork()
        keep = z3.And(z3.Select(sp.dom, bound), cond)
        dom = z3.Lambda([bound], keep)
        val = z3.Lambda([bound], z3.If(keep, unwrap(v, vt), default_of(vs)))
        hook = eng.builtins.get("__mapbuilt__")
        if hook is not None:
            hook(eng, st, "comp", dict(kt=sp.kt, vt=vt, s_dom=sp.dom, s_space=sp, key=bound, cond=cond, g=unwrap(v, vt),
                                       h_dom=dom, h_val=val, src=getattr(sp, "src_val", None)))
        yield VLoc(st.new_loc(Container("dict", kt=sp.kt, vt=vt, dom=dom, val=val, default=None))), st


def consume_gen(eng, g, state):
    if isinstance(g, VGen):
        return comprehend(eng, g.node, g.env, state)
    if isinstance(g, VComp):
        return g.sp, g.bound, g.cond, [g.elem]
    sp = iter_space(eng, g, state)
    if sp.kind == "concrete":
        return sp, None, None, [[x] for x in sp.items]
    bound = fresh("i" if sp.kind == "index" else "k", I if sp.kind == "index" else sort_of(sp.kt))
    sp.rng = z3.And(bound >= 0, bound < sp.n) if sp.kind == "index" else z3.Select(sp.dom, bound)
    sp.pexc = []
    return sp, bound, z3.BoolVal(True), [sp.fn(bound)]


@reg("builtins.tuple")
def b_tuple(eng, args, kwargs, state, node):
    if not args:
        yield VTuple([]), state
        return
    a = args[0]
    if isinstance(a, (VTuple, VITup)):
        yield a, state
        return
    if isinstance(a, VOpaque):
        yield VOpaque("tuple"), state
        return
    if isinstance(a, VSortedItems):
        yield a, state
        return
    sp, bound, cond, vals = consume_gen(eng, a, state)
    if sp.kind == "concrete":
        items = [v[0] for v in vals]
        yield VTuple(items), state
        return
    if sp.kind == "index":
        if not z3.is_true(simp(cond)):
            raise Unsupported("filtered tuple comprehension")
        e = vals[0]
        if not isinstance(e, (VInt, VBool)):
            raise Unsupported("tuple comprehension of non-int elements")
        for exc, st in with_pure_exc(eng, sp, bound, cond, state):
            if exc is not None:
                yield exc, st
                continue
            n = z3.If(sp.n < 0, z3.IntVal(0), sp.n)
            arr = z3.Lambda([bound], z3.If(z3.And(bound >= 0, bound < n), unwrap(e, ("int",)), z3.IntVal(0)))
            yield VITup(ITup.mk_it(n, arr)), st
        return
    raise Unsupported("tuple over key space")


def _quant(eng, args, state, is_any):
    sp, bound, cond, vals = consume_gen(eng, args[0], state)
    if sp.kind == "concrete":
        ts = [truth(v[0]) for v in vals]
        z = (z3.Or(ts) if is_any else z3.And(ts)) if ts else z3.BoolVal(not is_any)
        yield VBool(z), state
        return
    t = truth(vals[0])
    for exc, st in with_pure_exc(eng, sp, bound, cond, state):
        if exc is not None:
            yield exc, st
            continue
        if is_any:
            yield VBool(z3.Exists([bound], z3.And(sp.rng, cond, t))), st
        else:
            yield VBool(z3.ForAll([bound], z3.Implies(z3.And(sp.rng, cond), t))), st


@reg("builtins.any")
def b_any(eng, args, kwargs, state, node):
    yield from _quant(eng, args, state, True)


@reg("builtins.all")
def b_all(eng, args, kwargs, state, node):
    yield from _quant(eng, args, state, False)


class VSortedItems(V):
    """tuple(sorted(m.items(), key=id-of-key)): the canonical listing of a map.  By A6
    (sorted is the unique stable permutation, id is injective on live objects) it is an
    injective function of the map, so it is represented by the map value itself."""

    def __init__(self, m):
        self.m = m


@reg("builtins.sorted")
def b_sorted(eng, args, kwargs, state, node):
    a = args[0]
    key = kwargs.get("key")
    if isinstance(a, VIter) and a.kind == "items" and isinstance(key, VLambda):
        src = ast.unparse(key.node.body).replace(" ", "")
        arg = key.node.args.args[0].arg
        if src == "id(%s[0])" % arg:
            m = as_map(eng, a.src, state)
            if m is None:
                yield VSortedItems(VEmptyDict()), state
                return
            yield VSortedItems(VMap(*m)), state
            return
    raise Unsupported("sorted(...) other than the canonical key pattern")


@reg("builtins.list")
def b_list(eng, args, kwargs, state, node):
    st = state.fork()
    if not args:
        yield VLoc(st.new_loc(Container("list", items=[]))), st
        return
    if isinstance(args[0], VSeq):
        yield args[0], state
        return
    sp, bound, cond, vals = consume_gen(eng, args[0], state)
    if sp.kind != "concrete":
        raise Unsupported("list() of a symbolic sequence")
    yield VLoc(st.new_loc(Container("list", items=[v[0] for v in vals]))), st


@reg("builtins.dict")
def b_dict(eng, args, kwargs, state, node):
    st = state.fork()
    if not args:
        yield VLoc(st.new_loc(Container("dict", kt=None, vt=None, dom=None, val=None, default=None))), st
        return
    a = args[0]
    if isinstance(a, VOpaque):
        yield VOpaque("dict"), st
        return
    m = as_map(eng, a, state)
    if m is None:
        yield VLoc(st.new_loc(Container("dict", kt=None, vt=None, dom=None, val=None, default=None))), st
        return
    yield VLoc(st.new_loc(Container("dict", kt=m[0], vt=m[1], dom=m[2], val=m[3], default=None))), st


@reg("collections.defaultdict")
def b_defaultdict(eng, args, kwargs, state, node):
    fac = args[0]
    if not (isinstance(fac, VFunc) and fac.qual in ("builtins.int", "builtins.list", "builtins.dict")):
        raise Unsupported("defaultdict factory")
    default = fac.qual.split(".")[1]
    st = state.fork()
    if len(args) > 1:
        m = as_map(eng, args[1], state)
        if m is None:
            raise Unsupported("defaultdict from untyped dict")
        yield VLoc(st.new_loc(Container("dict", kt=m[0], vt=m[1], dom=m[2], val=m[3], default=default))), st
    else:
        yield VLoc(st.new_loc(Container("dict", kt=None, vt=None, dom=None, val=None, default=default))), st


@reg("builtins.zip")
def b_zip(eng, args, kwargs, state, node):
    yield VIter("zip", list(args)), state


@reg("builtins.enumerate")
def b_enumerate(eng, args, kwargs, state, node):
    yield VIter("enumerate", args[0]), state


@reg("builtins.range")
def b_range(eng, args, kwargs, state, node):
    if len(args) == 1:
        yield VIter("range", (z3.IntVal(0), args[0].z)), state
    elif len(args) == 2:
        yield VIter("range", (args[0].z, args[1].z)), state
    else:
        raise Unsupported("range step")


@reg("builtins.len")
def b_len(eng, args, kwargs, state, node):
    a = args[0]
    if isinstance(a, VTuple):
        yield VInt(len(a.items)), state
    elif isinstance(a, VITup):
        yield VInt(a.len), state
    elif isinstance(a, VStr):
        yield VInt(z3.Length(a.z)), state
    elif isinstance(a, VLoc) and cont(state, a).kind == "list":
        yield VInt(len(cont(state, a).items)), state
    elif isinstance(a, VSeq):
        yield VInt(z3.Length(a.z)), state
    else:
        raise Unsupported("len of %r" % (a,))


def _isinst(eng, v, c):
    """z3 Bool: isinstance(v, c) for a single class designator."""
    name = c.name if isinstance(c, VClass) else c.qual.split(".")[-1] if isinstance(c, VFunc) else None
    if name is None:
        raise Unsupported("isinstance class %r" % (c,))
    if isinstance(v, VObj):
        k = v.cls
        while k is not None:
            if k == name:
                return z3.BoolVal(True)
            ci = eng.program.cls(k)
            k = ci.bases[0] if ci is not None and ci.bases and eng.program.cls(ci.bases[0]) else None
        return z3.BoolVal(False)
    if isinstance(v, VBool):
        return z3.BoolVal(name in ("int", "bool"))
    if isinstance(v, VInt):
        return z3.BoolVal(name == "int")
    if isinstance(v, VNum):
        if name == "int":
            return v.kind == K_INT
        if name == "float":
            return v.kind == K_FLOAT
        if name == "Decimal":
            return v.kind == K_DEC
        return z3.BoolVal(False)
    if isinstance(v, VStr):
        return z3.BoolVal(name == "str")
    if isinstance(v, VOptStr):
        return OptStr.is_osome(v.z) if name == "str" else z3.BoolVal(False)
    if isinstance(v, (VNone, VNotImpl)):
        return z3.BoolVal(False)
    if isinstance(v, VTuple):
        return z3.BoolVal(name == "tuple")
    if isinstance(v, (VLoc, VMap, VEmptyDict)):
        return z3.BoolVal(name in ("dict", "Mapping"))
    if isinstance(v, VOpaque):
        if v.what.startswith("other"):
            return z3.BoolVal(False)
        if v.what in ("json-dict", "dict"):
            return z3.BoolVal(name == "dict")
    raise Unsupported("isinstance(%r, %s)" % (v, name))


@reg("builtins.isinstance")
def b_isinstance(eng, args, kwargs, state, node):
    v, c = args
    cs = c.items if isinstance(c, VTuple) else [c]
    yield VBool(z3.Or([_isinst(eng, v, x) for x in cs])), state


@reg("builtins.int")
def b_int(eng, args, kwargs, state, node):
    a = args[0]
    if isinstance(a, VInt):
        yield a, state
    elif isinstance(a, VNum) and z3.is_app_of(simp(a.val), z3.Z3_OP_TO_REAL):
        yield VInt(simp(a.val).arg(0)), state
    elif isinstance(a, VNum):
        # truncation toward zero
        fl = z3.ToInt(a.val)
        yield VInt(z3.If(a.val >= 0, fl, z3.If(z3.ToReal(fl) == a.val, fl, fl + 1))), state
    elif isinstance(a, VStr):
        ok = int_text_ok(a.z)
        yield from eng.alternatives(state, [(ok, VInt(z3.StrToInt(z3.If(z3.PrefixOf(z3.StringVal("-"), a.z), z3.SubString(a.z, 1, z3.Length(a.z) - 1), a.z)) * z3.If(z3.PrefixOf(z3.StringVal("-"), a.z), -1, 1))),
                                            (z3.Not(ok), Exc("ValueError"))])
    else:
        raise Unsupported("int(%r)" % (a,))


def int_text_ok(s):
    body = z3.If(z3.Or(z3.PrefixOf(z3.StringVal("-"), s), z3.PrefixOf(z3.StringVal("+"), s)), z3.SubString(s, 1, z3.Length(s) - 1), s)
    return z3.And(z3.Length(body) > 0, z3.Length(body) <= 4300, z3.StrToInt(body) >= 0)


@reg("builtins.float")
def b_float(eng, args, kwargs, state, node):
    a = args[0]
    if is_numeric(a):
        yield VNum(K_FLOAT, to_num(a).val), state
    else:
        raise Unsupported("float(%r)" % (a,))


@reg("decimal.Decimal")
def b_decimal(eng, args, kwargs, state, node):
    a = args[0]
    if is_numeric(a):
        yield VNum(K_DEC, to_num(a).val), state
    elif isinstance(a, VStr):
        yield VNum(K_DEC, fresh("dec", R)), state
    else:
        raise Unsupported("Decimal(%r)" % (a,))


@reg("builtins.abs")
def b_abs(eng, args, kwargs, state, node):
    a = args[0]
    if isinstance(a, VInt):
        yield VInt(z3.If(a.z >= 0, a.z, -a.z)), state
    elif isinstance(a, VNum):
        yield VNum(a.kind, z3.If(a.val >= 0, a.val, -a.val)), state
    elif isinstance(a, VObj):
        yield from eng.call_method(a, "__abs__", [], {}, state, node)
    else:
        raise Unsupported("abs")


@reg("builtins.round")
def b_round(eng, args, kwargs, state, node):
    """round(x) is SOME integer within 1/2 of x (which one at a tie is not modelled); round(x, n) some number within 10**-n / 2;
    the result of round(Decimal) with no digits is an int, as in Python"""
    a = args[0]
    if isinstance(a, VInt):
        yield a, state
        return
    if not isinstance(a, VNum):
        raise Unsupported("round(%r)" % (a,))
    if len(args) == 1 or isinstance(args[1], VNone):
        r = fresh("round", I)
        st = state.fork()
        st.assume(z3.And(2 * (z3.ToReal(r) - a.val) <= 1, 2 * (a.val - z3.ToReal(r)) <= 1))
        yield VInt(r), st
        return
    n = args[1]
    if isinstance(n, VInt) and z3.is_int_value(simp(n.z)):
        k = simp(n.z).as_long()
        r = fresh("round", R)
        half = z3.RealVal(10) ** (-k) / 2 if k >= 0 else z3.RealVal(10 ** (-k)) / 2
        st = state.fork()
        st.assume(z3.And(r - a.val <= half, a.val - r <= half))
        yield VNum(a.kind, r), st
        return
    raise Unsupported("round with symbolic digits")


def _minmax(eng, args, state, node, is_min):
    vals = list(args)
    if len(vals) == 1 and isinstance(vals[0], VTuple):
        vals = list(vals[0].items)
    if len(vals) < 2 or not all(is_numeric(v) for v in vals):
        raise Unsupported("min/max of %r" % (vals,))
    best = vals[0]
    for v in vals[1:]:
        c = num_compare("Lt", v, best) if is_min else num_compare("Gt", v, best)
        if isinstance(best, VInt) and isinstance(v, VInt):
            best = VInt(z3.If(c, v.z, best.z))
        else:
            bn, vn = to_num(best), to_num(v)
            best = VNum(z3.If(c, vn.kind, bn.kind), z3.If(c, vn.val, bn.val))
    yield best, state


@reg("builtins.min")
def b_min(eng, args, kwargs, state, node):
    yield from _minmax(eng, args, state, node, True)


@reg("builtins.max")
def b_max(eng, args, kwargs, state, node):
    yield from _minmax(eng, args, state, node, False)


@reg("builtins.divmod")
def b_divmod(eng, args, kwargs, state, node):
    for q, s1 in eng.binop("FloorDiv", args[0], args[1], state, node):
        if isinstance(q, Exc):
            yield q, s1
            continue
        for m, s2 in eng.binop("Mod", args[0], args[1], s1, node):
            yield (m if isinstance(m, Exc) else VTuple([q, m])), s2


@reg("math.isclose")
def b_isclose(eng, args, kwargs, state, node):
    a, b = to_num(args[0]).val, to_num(args[1]).val
    rel = to_num(kwargs["rel_tol"]).val if "rel_tol" in kwargs else z3.RealVal("1e-9")
    ab = to_num(kwargs["abs_tol"]).val if "abs_tol" in kwargs else z3.RealVal(0)
    absr = lambda x: z3.If(x >= 0, x, -x)
    big = z3.If(absr(a) >= absr(b), absr(a), absr(b))
    yield VBool(z3.Or(a == b, absr(a - b) <= z3.If(rel * big >= ab, rel * big, ab))), state


@reg("builtins.bool")
def b_bool(eng, args, kwargs, state, node):
    yield VBool(truth(freeze(eng, args[0], state))), state


@reg("builtins.str")
def b_str(eng, args, kwargs, state, node):
    a = args[0]
    if isinstance(a, VInt):
        yield VStr(z3.If(a.z >= 0, z3.IntToStr(a.z), z3.Concat(z3.StringVal("-"), z3.IntToStr(-a.z)))), state
    elif isinstance(a, VStr):
        yield a, state
    else:
        yield VOpaque("str"), state


@reg("builtins.id")
def b_id(eng, args, kwargs, state, node):
    yield VOpaque("id"), state


@reg("builtins.hash")
def b_hash(eng, args, kwargs, state, node):
    yield VOpaque("hash"), state


@reg("builtins.type")
def b_type(eng, args, kwargs, state, node):
    yield VOpaque("type"), state


@reg("typing.cast")
def b_cast(eng, args, kwargs, state, node):
    yield args[1], state


@reg("math.log")
def b_log(eng, args, kwargs, state, node):
    x = to_num(args[0]).val
    alts = [(x <= 0, Exc("ValueError", "math domain error"))]
    if len(args) == 1:
        alts.append((x > 0, VNum(K_FLOAT, rlog(x))))
        yield from eng.alternatives(state, alts)
    else:
        b = to_num(args[1]).val
        alts = [(z3.Or(x <= 0, b <= 0), Exc("ValueError", "math domain error")),
                (z3.And(x > 0, b > 0, rlog(b) == 0), Exc("ZeroDivisionError")),
                (z3.And(x > 0, b > 0, rlog(b) != 0), VNum(K_FLOAT, rlog(x) / rlog(b)))]
        yield from eng.alternatives(state, alts)


@reg("math.sqrt")
def b_sqrt(eng, args, kwargs, state, node):
    x = to_num(args[0]).val
    yield from eng.alternatives(state, [(x < 0, Exc("ValueError", "math domain error")),
                                        (x >= 0, VNum(K_FLOAT, rsqrt(x)))])


@reg("operator.mul")
def b_opmul(eng, args, kwargs, state, node):
    yield from eng.binop("Mult", args[0], args[1], state, node)


@reg("functools.reduce")
def b_reduce(eng, args, kwargs, state, node):
    f, seq = args[0], args[1]
    sp = iter_space(eng, seq, state)
    if sp.kind != "concrete":
        raise Unsupported("reduce over a symbolic sequence")
    if not sp.items:
        yield Exc("TypeError", "reduce of empty sequence"), state
        return

    def go(acc, rest, st):
        if not rest:
            yield acc, st
            return
        for r, s2 in eng.call_value(f, [acc, rest[0]], {}, st, node):
            if isinstance(r, Exc):
                yield r, s2
            else:
                yield from go(r, rest[1:], s2)

    yield from go(sp.items[0], sp.items[1:], state)


# container methods -----------------------------------------------------------------------


@reg("method:items")
def m_items(eng, obj, args, kwargs, state, node):
    yield VIter("items", obj), state


@reg("method:keys")
def m_keys(eng, obj, args, kwargs, state, node):
    yield VIter("keys", obj), state


@reg("method:values")
def m_values(eng, obj, args, kwargs, state, node):
    yield VIter("values", obj), state


@reg("method:get")
def m_get(eng, obj, args, kwargs, state, node):
    k = args[0]
    dflt = args[1] if len(args) > 1 else NONE
    if isinstance(obj, VRow):
        co = state.glob(obj.name)
        kt, vt = co.kt, co.vt
        dom, val = z3.Select(co.dom, obj.key), z3.Select(co.val, obj.key)
    else:
        m = as_map(eng, obj, state)
        if m is None:
            yield dflt, state
            return
        kt, vt, dom, val = m
    kz = unwrap(k, kt)
    present = z3.Select(dom, kz)
    got = wrap(z3.Select(val, kz), vt)
    if mergeable(got, dflt):
        yield merge(present, got, dflt), state
        return
    for b, st in eng.branch(state, present):
        yield (got if b else dflt), st


@reg("method:append")
def m_append(eng, obj, args, kwargs, state, node):
    st = state.fork()
    c = cont(st, obj).clone()
    c.items.append(args[0])
    put(st, obj, c)
    yield NONE, st


@reg("method:add")
def m_add(eng, obj, args, kwargs, state, node):
    st = state.fork()
    c = cont(st, obj).clone()
    if c.kind != "set":
        raise Unsupported("add on non-set")
    c.dom = z3.Store(c.dom, unwrap(args[0], c.kt), z3.BoolVal(True))
    put(st, obj, c)
    yield NONE, st


@reg("method:cache_clear")
def m_cache_clear(eng, obj, args, kwargs, state, node):
    st = state.fork()
    if isinstance(obj, VFunc):
        st.cleared = st.cleared | {obj.qual}
    yield NONE, st


# loops ---------------------------------------------------------------------------------------


@reg("__for__")
def for_loop(eng, node, state):
    if node.orelse:
        raise Unsupported("for/else")
    for it, st in eng.eval(node.iter, state):
        if isinstance(it, Exc):
            yield "raise", it, st
            continue
        hook = eng.builtins.get("__loopinv__")
        if hook is not None:
            res = hook(eng, node, it, st)
            if res is not None:
                yield from res
                continue
        sp = iter_space(eng, it, st)
        if sp.kind == "concrete":
            yield from _unroll(eng, node, sp.items, st)
            continue
        if sp.kind == "keys":
            res = _accumulate(eng, node, sp, st)
            if res is not None:
                yield "next", None, res
                continue
        raise Unsupported("for loop over a symbolic collection without invariant (line %d)" % node.lineno)


def _unroll(eng, node, items, state):
    if not items:
        yield "next", None, state
        return
    for r, s1 in eng.assign(node.target, items[0], state):
        if isinstance(r, Exc):
            yield "raise", r, s1
            continue
        for kind, payload, s2 in eng.exec_block(node.body, s1):
            if kind in ("next", "continue"):
                yield from _unroll(eng, node, items[1:], s2)
            elif kind == "break":
                yield "next", None, s2
            else:
                yield kind, payload, s2


def _accumulate(eng, node, sp, state):
    """Rule R-acc: `for k, v in M.items(): A[k] op= f(v)` with A a local defaultdict(int)
    (or a dict already holding every key) and distinct keys k (dict keys are distinct):
    the loop is equivalent to the pointwise update
        A'[k] = (A[k] if k in A else 0) op f(M[k])   for k in M,   A'[k] = A[k] otherwise.
    Side conditions are checked syntactically; anything else returns None."""
    if len(node.body) != 1 or not isinstance(node.body[0], ast.AugAssign):
        return None
    aug = node.body[0]
    if not isinstance(aug.op, (ast.Add, ast.Sub)):
        return None
    tgt = aug.target
    if not (isinstance(tgt, ast.Subscript) and isinstance(tgt.value, ast.Name) and isinstance(tgt.slice, ast.Name)):
        return None
    if not (isinstance(node.target, ast.Tuple) and len(node.target.elts) == 2 and all(isinstance(e, ast.Name) for e in node.target.elts)):
        return None
    kname, vname = node.target.elts[0].id, node.target.elts[1].id
    if tgt.slice.id != kname:
        return None
    acc = state.env.get(tgt.value.id)
    if not isinstance(acc, VLoc) or isinstance(acc.key, str):
        return None
    names = {n.id for n in ast.walk(aug.value) if isinstance(n, ast.Name)}
    if tgt.value.id in names:
        return None
    c = cont(state, acc)
    if c.kind != "dict" or c.default != "int" or c.kt != sp.kt:
        return None
    k = fresh("k", sort_of(sp.kt))
    st = state.fork()
    bind_target(eng, node.target, sp.fn(k), st.env)
    st.assume(z3.Select(sp.dom, k))
    f = eng.eval1(aug.value, st)
    if not isinstance(f, VInt):
        return None
    cur = z3.If(z3.Select(c.dom, k), z3.Select(c.val, k), z3.IntVal(0))
    new = cur + f.z if isinstance(aug.op, ast.Add) else cur - f.z
    out = state.fork()
    c2 = c.clone()
    c2.dom = z3.Lambda([k], z3.Or(z3.Select(c.dom, k), z3.Select(sp.dom, k)))
    c2.val = z3.Lambda([k], z3.If(z3.Select(sp.dom, k), new, z3.Select(c.val, k)))
    put(out, acc, c2)
    out.notes.append("R-acc applied at line %d" % node.lineno)
    hook = eng.builtins.get("__mapbuilt__")
    if hook is not None:
        hook(eng, out, "acc", dict(kt=sp.kt, a_dom=c.dom, a_val=c.val, s_dom=sp.dom, s_space=sp, f=f.z, key=k,
                                  sign=1 if isinstance(aug.op, ast.Add) else -1, h_dom=c2.dom, h_val=c2.val))
    return out


@reg("__while__")
def while_loop(eng, node, state):
    hook = eng.builtins.get("__whileinv__")
    if hook is not None:
        res = hook(eng, node, state)
        if res is not None:
            yield from res
            return
    raise Unsupported("while loop without invariant (line %d)" % node.lineno)


# non-numeric binary operators and comparisons --------------------------------------------------


@reg("__binop__")
def binop_extra(eng, op, a, b, state):
    if op == "Add":
        if isinstance(a, VTuple) and isinstance(b, VTuple):
            return iter([(VTuple(a.items + b.items), state)])
        if isinstance(a, VITup) and isinstance(b, VTuple) and all(isinstance(x, VInt) for x in b.items):
            n = a.len
            arr = a.arr
            for j, x in enumerate(b.items):
                arr = z3.Store(arr, n + j, x.z)
            return iter([(VITup(ITup.mk_it(n + len(b.items), arr)), state)])
        if isinstance(a, VStr) and isinstance(b, VStr):
            return iter([(VStr(z3.Concat(a.z, b.z)), state)])
        if isinstance(a, VOpaqueZ) and a.t == ("strseq",) and isinstance(b, VTuple) and all(isinstance(x, VStr) for x in b.items):
            z = a.z
            for x in b.items:
                z = z3.Concat(z, z3.Unit(x.z))
            return iter([(VOpaqueZ(z, ("strseq",)), state)])
        if isinstance(a, VLoc) and isinstance(b, VLoc) and cont(state, a).kind == "list" and cont(state, b).kind == "list":
            st = state.fork()
            return iter([(VLoc(st.new_loc(Container("list", items=cont(state, a).items + cont(state, b).items))), st)])
    if op == "Add" and (isinstance(a, VSeq) or isinstance(b, VSeq)):
        seq = a if isinstance(a, VSeq) else b
        t = ("seq", seq.et)
        fa, fb = freeze(eng, a, state), freeze(eng, b, state)
        return iter([(VSeq(z3.Concat(unwrap(fa, t), unwrap(fb, t)), seq.et), state)])
    if op == "Mult" and isinstance(a, VLoc) and isinstance(b, VInt) and cont(state, a).kind == "list":
        z = simp(b.z)
        if z3.is_int_value(z):
            st = state.fork()
            return iter([(VLoc(st.new_loc(Container("list", items=cont(state, a).items * z.as_long()))), st)])
    return None


def _total_ordering(eng, cls):
    ci = eng.program.cls(cls)
    return ci is not None and any(d.endswith("total_ordering") for d in ci.decorators) and eng.find_method(cls, "__lt__")


def _synth(eng, op, a, b, state, node):
    """functools.total_ordering (A10): __le__/__gt__/__ge__ derived from __lt__ and ==
         a <= b : r = a.__lt__(b); NotImplemented if r is; else r or a == b
         a >  b : not r and a != b          a >= b : not r"""
    for r, st in eng.call_method(a, "__lt__", [b], {}, state, node):
        if isinstance(r, (Exc, VNotImpl)):
            yield r, st
            continue
        lt = truth(r)
        if op == "GtE":
            yield VBool(z3.Not(lt)), st
            continue
        for e, s2 in richcmp(eng, "Eq", a, b, st, node):
            if isinstance(e, Exc):
                yield e, s2
                continue
            eq = truth(e)
            yield VBool(z3.Or(lt, eq) if op == "LtE" else z3.And(z3.Not(lt), z3.Not(eq))), s2


@reg("__richcmp__")
def richcmp(eng, op, a, b, state, node):
    def gen():
        # objects with user-defined comparison methods: data-model protocol
        name = eng.CMPN[op]
        refl = eng.CMPN[eng.REFL[op]]
        tried = False
        if isinstance(a, VObj) and eng.find_method(a.cls, name):
            tried = True
            for r, st in eng.call_method(a, name, [b], {}, state, node):
                if isinstance(r, VNotImpl):
                    yield from second(st)
                else:
                    yield r, st
            return
        if isinstance(a, VObj) and op in ("LtE", "Gt", "GtE") and _total_ordering(eng, a.cls):
            for r, st in _synth(eng, op, a, b, state, node):
                if isinstance(r, VNotImpl):
                    yield from second(st)
                else:
                    yield r, st
            return
        yield from second(state)

    def second(st):
        name = eng.CMPN[op]
        refl = eng.CMPN[eng.REFL[op]]
        if isinstance(b, VObj) and eng.find_method(b.cls, refl):
            for r, s2 in eng.call_method(b, refl, [a], {}, st, node):
                if isinstance(r, VNotImpl):
                    yield from fallback(s2)
                else:
                    yield r, s2
            return
        if isinstance(b, VObj) and eng.REFL[op] in ("LtE", "Gt", "GtE") and _total_ordering(eng, b.cls):
            for r, s2 in _synth(eng, eng.REFL[op], b, a, st, node):
                if isinstance(r, VNotImpl):
                    yield from fallback(s2)
                else:
                    yield r, s2
            return
        # total_ordering / default __ne__ synthesised methods
        yield from fallback(st)

    def fallback(st):
        if op == "Eq":
            yield VBool(_default_eq(eng, a, b, st)), st
        elif op == "NotEq":
            # default __ne__ inverts __eq__ when defined
            if isinstance(a, VObj) and eng.find_method(a.cls, "__eq__") and not eng.find_method(a.cls, "__ne__"):
                for r, s2 in richcmp(eng, "Eq", a, b, st, node):
                    yield (r if isinstance(r, Exc) else VBool(z3.Not(truth(r)))), s2
                return
            yield VBool(z3.Not(_default_eq(eng, a, b, st))), st
        else:
            yield Exc("TypeError", "'%s' not supported" % op), st

    if op == "NotEq" and isinstance(a, VObj) and eng.find_method(a.cls, "__eq__") and not eng.find_method(a.cls, "__ne__"):
        def ne():
            for r, s2 in richcmp(eng, "Eq", a, b, state, node):
                yield (r if isinstance(r, Exc) else VBool(z3.Not(truth(r)))), s2
        return ne()
    return gen()


def _default_eq(eng, a, b, state):
    if isinstance(a, (VLoc, VMap, VEmptyDict)) and isinstance(b, (VLoc, VMap, VEmptyDict)):
        ma, mb = freeze(eng, a, state), freeze(eng, b, state)
        if isinstance(ma, VEmptyDict) and isinstance(mb, VEmptyDict):
            return z3.BoolVal(True)
        if isinstance(ma, VEmptyDict):
            ma, mb = mb, ma
        if isinstance(mb, VEmptyDict):
            return ma.dom == empty_dom(ma.dom.sort().domain())
        return z3.And(ma.dom == mb.dom, ma.val == mb.val)
    if isinstance(a, VSortedItems) and isinstance(b, VSortedItems):
        return z3.And(a.m.dom == b.m.dom, a.m.val == b.m.val)
    if isinstance(a, VSortedItems) and isinstance(b, VTuple) and len(b.items) == 1 and isinstance(b.items[0], VTuple):
        k, v = b.items[0].items
        ks = a.m.dom.sort().domain()
        return z3.And(a.m.dom == z3.Store(empty_dom(ks), unwrap(k, a.m.kt), z3.BoolVal(True)),
                      z3.Select(a.m.val, unwrap(k, a.m.kt)) == unwrap(v, a.m.vt))
    return eng_eq(eng, a, b)
