"""Reads the real source of /repo/src/measured on every run and indexes it.

Nothing is copied or rewritten: functions are located in the parsed AST of the file the
interpreter imports (the /venv install is editable and points at the same files), and
evidence records the sha256 of every file and of every function's source segment.

What extraction drops: docstrings, type annotations (used only as sort hints),
`TYPE_CHECKING` blocks, `@overload` stubs.
"""
import ast
import hashlib
import os

_LINES = {}
DEFAULT_SRC = os.environ.get("VERIF_SRC", "/repo/src")


class FuncInfo:
    def __init__(self, module, cls, node, source):
        self.module, self.cls, self.node = module, cls, node
        self.name = node.name
        self.qual = ".".join(x for x in (module, cls, node.name) if x)
        self.decorators = [_deco_name(d) for d in node.decorator_list]
        self.kind = (
            "static" if "staticmethod" in self.decorators
            else "class" if "classmethod" in self.decorators
            else "property" if "property" in self.decorators
            else "method" if cls else "function"
        )
        self.memo = any(d in ("lru_cache", "functools.lru_cache", "cache", "functools.cache") for d in self.decorators)
        lines = _LINES.setdefault(id(source), source.splitlines())
        seg = "\n".join(lines[node.lineno - 1:node.end_lineno])
        self.sha = hashlib.sha256(seg.encode()).hexdigest()[:16]
        self.lineno = node.lineno
        self.params = [a.arg for a in node.args.posonlyargs + node.args.args]
        self.vararg = node.args.vararg.arg if node.args.vararg else None
        self.kwonly = [a.arg for a in node.args.kwonlyargs]
        self.annotations = {a.arg: a.annotation for a in node.args.posonlyargs + node.args.args + node.args.kwonlyargs}
        nd = len(node.args.defaults)
        self.defaults = dict(zip(self.params[len(self.params) - nd:], node.args.defaults))
        for a, d in zip(node.args.kwonlyargs, node.args.kw_defaults):
            if d is not None:
                self.defaults[a.arg] = d
        self.returns = node.returns

    def body(self):
        b = self.node.body
        if b and isinstance(b[0], ast.Expr) and isinstance(getattr(b[0], "value", None), ast.Constant) and isinstance(b[0].value.value, str):
            return b[1:]
        return b


def _deco_name(d):
    if isinstance(d, ast.Call):
        d = d.func
    if isinstance(d, ast.Attribute):
        base = _deco_name(d.value)
        return (base + "." if base else "") + d.attr
    if isinstance(d, ast.Name):
        return d.id
    return ""


class ClassInfo:
    def __init__(self, module, node):
        self.module, self.node, self.name = module, node, node.name
        self.methods = {}
        self.aliases = {}  # name -> name  (e.g. __rmul__ = __mul__) or dotted expr
        self.classvars = []
        self.bases = [_deco_name(b) for b in node.bases]
        self.decorators = [_deco_name(d) for d in node.decorator_list]
        self.slots = None


class Module:
    def __init__(self, name, path):
        self.name, self.path = name, path
        with open(path, encoding="utf-8") as f:
            self.source = f.read()
        self.sha = hashlib.sha256(self.source.encode()).hexdigest()
        self.tree = ast.parse(self.source)
        self.functions, self.classes = {}, {}
        self.globals_assigned = {}  # name -> list of value nodes (top level)
        self.imports = {}  # local name -> (module, attr or None)
        self._index()

    def _index(self):
        for node in self.tree.body:
            self._index_stmt(node)

    def _index_stmt(self, node):
        if isinstance(node, ast.FunctionDef):
            if "overload" in [_deco_name(d) for d in node.decorator_list]:
                return
            self.functions[node.name] = FuncInfo(self.name, None, node, self.source)
        elif isinstance(node, ast.ClassDef):
            ci = ClassInfo(self.name, node)
            for sub in node.body:
                if isinstance(sub, ast.FunctionDef):
                    if "overload" in [_deco_name(d) for d in sub.decorator_list]:
                        continue
                    ci.methods[sub.name] = FuncInfo(self.name, node.name, sub, self.source)
                elif isinstance(sub, ast.Assign) and len(sub.targets) == 1 and isinstance(sub.targets[0], ast.Name):
                    tgt = sub.targets[0].id
                    if tgt == "__slots__":
                        try:
                            ci.slots = list(ast.literal_eval(sub.value))
                        except Exception:
                            pass
                    elif isinstance(sub.value, ast.Name):
                        ci.aliases[tgt] = sub.value.id
                    else:
                        ci.aliases[tgt] = ast.unparse(sub.value)
                elif isinstance(sub, ast.AnnAssign) and isinstance(sub.target, ast.Name) and sub.value is not None:
                    ci.classvars.append(sub.target.id)
            self.classes[node.name] = ci
        elif isinstance(node, ast.Assign):
            for t in node.targets:
                if isinstance(t, ast.Name):
                    self.globals_assigned.setdefault(t.id, []).append(node.value)
        elif isinstance(node, ast.AnnAssign) and isinstance(node.target, ast.Name) and node.value is not None:
            self.globals_assigned.setdefault(node.target.id, []).append(node.value)
        elif isinstance(node, ast.ImportFrom):
            for a in node.names:
                self.imports[a.asname or a.name] = (("." * node.level) + (node.module or ""), a.name)
        elif isinstance(node, ast.Import):
            for a in node.names:
                self.imports[a.asname or a.name.split(".")[0]] = (a.name, None)
        elif isinstance(node, (ast.If, ast.Try)):
            # TYPE_CHECKING blocks are dropped; try/except import fallbacks are scanned
            if isinstance(node, ast.If) and "TYPE_CHECKING" in ast.unparse(node.test):
                return
            for sub in node.body:
                self._index_stmt(sub)


class Program:
    """All measured modules under one source root."""

    def __init__(self, src=None):
        self.src = src or DEFAULT_SRC
        self.pkg = os.path.join(self.src, "measured")
        self.modules = {}
        for fn in sorted(os.listdir(self.pkg)):
            if not fn.endswith(".py") or fn == "_parser.py":
                continue
            name = "measured" if fn == "__init__.py" else "measured." + fn[:-3]
            self.modules[name] = Module(name, os.path.join(self.pkg, fn))

    def add_module(self, name, path):
        """a sidecar module (lemma functions); its names resolve like those of `measured`"""
        self.modules[name] = Module(name, path)

    def func(self, qual):
        """measured.Unit._multiply / measured.conversions.convert / measured._add"""
        parts = qual.split(".")
        for cut in range(len(parts) - 1, 0, -1):
            mod = ".".join(parts[:cut])
            if mod in self.modules:
                rest = parts[cut:]
                m = self.modules[mod]
                if len(rest) == 1:
                    return m.functions.get(rest[0])
                if len(rest) == 2 and rest[0] in m.classes:
                    return self.method(mod, rest[0], rest[1])
        return None

    def method(self, mod, cls, name, _seen=()):
        ci = self.modules[mod].classes.get(cls)
        if ci is None:
            return None
        if name in ci.methods:
            return ci.methods[name]
        if name in ci.aliases and ci.aliases[name] in ci.methods and (cls, name) not in _seen:
            return ci.methods[ci.aliases[name]]
        return None

    def cls(self, name):
        for m in self.modules.values():
            if name in m.classes:
                return m.classes[name]
        return None

    def file_hashes(self):
        return {os.path.relpath(m.path, self.src): m.sha for m in self.modules.values()}

    def all_functions(self):
        for m in self.modules.values():
            for f in m.functions.values():
                yield f
            for c in m.classes.values():
                for f in c.methods.values():
                    yield f
