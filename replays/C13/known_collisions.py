#!/venv/bin/python
"""Known findings C13: (a) str() of a prefixed unit can be the symbol of another unit and then parses
to that unit (a different physical value); (b) a prefix without a registered symbol is rendered as
base+superscript or as a leading magnitude, which the grammar does not accept as a unit.
Exit 1 while any of the recorded witnesses still behaves this way."""
import sys
import measured.systems  # noqa
from measured import Unit
from measured.si import Milli, Hecto, Peta, Tera, Centi, Nano, Kilo, Meter, Hour, Day
from measured.us import Rankine
from measured.us import Inch, Mile
from measured.astronomical import JulianYear
from measured.iec import Kibi
from measured.si import Hertz
bad = []
for u in (Milli * Inch, Hecto * Hour, Hecto * JulianYear, Peta * JulianYear, Tera * Rankine, Centi * Day, Nano * Mile):
    p = Unit.parse(str(u))
    if p is not u:
        bad.append("str(%r) = %r parses to %r" % (u, str(u), p))
for u in (Kibi * Hertz, Kilo * Meter ** 2):
    try:
        if Unit.parse(str(u)) is not u:
            bad.append("str = %r parses elsewhere" % str(u))
    except Exception as e:
        bad.append("str = %r does not parse as a unit (%s)" % (str(u), type(e).__name__))
print("\n".join(bad))
sys.exit(1 if bad else 0)
