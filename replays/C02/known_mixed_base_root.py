#!/venv/bin/python
"""Known finding C02: for prefixes of different bases (SI with IEC) the law (x**n).root(n) == x
does not hold even numerically: the base change makes the exponent a non-integral float and
Prefix.root raises FractionalDimensionError for every non-integral exponent.
Exit 1 while the real code still behaves this way."""
import sys
from measured import FractionalDimensionError
from measured.si import Kilo, Meter
from measured.iec import Kibi
x = Kilo * Kibi * Meter
try:
    r = (x ** 2).root(2)
    ok = abs(float(r.prefix.quantify()) / float(x.prefix.quantify()) - 1) <= 1e-9
    print("root of power:", r, "ok" if ok else "wrong scale")
    sys.exit(0 if ok else 1)
except FractionalDimensionError as e:
    print("((Kilo*Kibi*Meter)**2).root(2) raised FractionalDimensionError:", e)
    sys.exit(1)
