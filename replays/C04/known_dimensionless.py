#!/venv/bin/python
"""Known finding (C04, C05, C06): units of dimension Number are all filed under one key by the
conversion planner, so which of them stands in a denominator (and which kind of dimensionless
unit it is) is lost: 1 rad^-1 converts to 57.29 deg^-1 instead of 0.01745 deg^-1.
Exit 1 while the real code still behaves this way."""
import sys
import measured.systems  # noqa
from measured.si import Radian, Degree
r = (1 * Radian ** -1).in_unit(Degree ** -1)
want = 3.141592653589793 / 180
print("(1 * Radian**-1).in_unit(Degree**-1) =", r.magnitude, "| required", want)
sys.exit(1 if abs(r.magnitude / want - 1) > 1e-5 else 0)
