#!/venv/bin/python
"""Known finding (C09, and the conversions through it in C04/C05/C06): the ton of refrigeration is
declared twice, as 12000 BTU/h (the library's BTU is the thermochemical one, 1054.35 J) and as
3.51685 kW (the value for the International Table BTU); the two routes differ by 6.68e-4,
above the 1e-5 per degree of the property.  Exit 1 while the declarations still disagree."""
import sys
import measured.systems  # noqa
from measured.energy import TonOfRefrigeration, BritishThermalUnit
from measured.si import Watt, Hour, Joule
direct = (1 * TonOfRefrigeration).in_unit(Watt).magnitude
via_btu = 12000 * (1 * BritishThermalUnit).in_unit(Joule).magnitude / 3600
print("1 TR = %r W (declared) vs %r W (12000 BTU/h)" % (direct, via_btu))
sys.exit(1 if abs(direct / via_btu - 1) > 6e-5 else 0)
