#!/venv/bin/python
"""Known finding C12: quantities that compare equal across units/prefixes have different hashes
(hash is over (magnitude, unit), equality is over the physical value).  Exit 1 while this holds."""
import sys
from measured.si import Meter, Kilo
a, b = 1000 * Meter, 1 * (Kilo * Meter)
print("1000 m == 1 km:", a == b, "| hashes equal:", hash(a) == hash(b))
sys.exit(1 if a == b and hash(a) != hash(b) else 0)
