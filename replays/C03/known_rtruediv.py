#!/venv/bin/python
"""Known finding C03: number / quantity keeps the quantity's unit instead of inverting it.
Obligation: Quantity.__rtruediv__/post:dimension-inverse.  Pinned by tests/quantities/test_division.py,
so it is recorded, not repaired.  Exit 1 while the real code still behaves this way."""
import sys
from measured.si import Meter
r = 2 / (4 * Meter)
print("2 / (4 * Meter) =", r, "| dimension", r.unit.dimension, "| required", Meter.dimension ** -1)
sys.exit(1 if r.unit.dimension is not Meter.dimension ** -1 else 0)
