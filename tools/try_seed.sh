#!/bin/bash
# usage: tools/try_seed.sh <ID> [check-ids...]   -- applies /verif/seeded/<ID>/patch.diff to /repo, runs demo + checks, always restores /repo
id=$1; shift; checks=${@:-$id}
d=/verif/seeded/$id
mkdir -p $d
[ -f $d/patch.diff ] || cp /tmp/seed/$id/patch.diff /tmp/seed/$id/demo.py $d/
cd /repo || exit 2
git diff --quiet || { echo "/repo is dirty, refusing"; exit 2; }
trap 'git -C /repo checkout -- . ; rm -rf /repo/.hypothesis/examples' EXIT
echo "== demo on unchanged tree"; PYTHONPATH=/repo/src /venv/bin/python $d/demo.py > /tmp/try_demo0.txt 2>&1; echo "exit $?"
git apply $d/patch.diff || { echo "patch does not apply"; exit 2; }
echo "== demo with the change"; PYTHONPATH=/repo/src /venv/bin/python $d/demo.py > /tmp/try_demo1.txt 2>&1; echo "exit $?"; tail -3 /tmp/try_demo1.txt
if [ -z "$SKIP_TESTS" ]; then echo "== pinned suite with the change"; /venv/bin/python /verif/tools/baseline.py | tail -3; fi
for c in $checks; do
  echo "== check $c"; (cd /verif && python3-vt -m checks.run $c --tier quick 2>&1 | grep -v "^WARNING\|KNOWN-FINDING" | cut -c1-300 | tail -8; echo "check exit ${PIPESTATUS[0]}")
done
