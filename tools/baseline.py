"""Run the pinned suite on /repo (or --src root) and compare with BASELINE.json stable_pass."""
import json, subprocess, sys, tempfile, os, xml.etree.ElementTree as ET
repo = sys.argv[1] if len(sys.argv) > 1 else "/repo"
base = json.load(open("/root/.vp/BASELINE.json"))
with tempfile.TemporaryDirectory() as td:
    xml = os.path.join(td, "j.xml")
    env = dict(os.environ)
    if repo != "/repo":
        env["PYTHONPATH"] = os.path.join(repo, "src")
    p = subprocess.run(["/venv/bin/python", "-m", "pytest", "-q", "-p", "no:cacheprovider", "--no-cov", "--timeout=900",
                        "--continue-on-collection-errors", "--junitxml=" + xml], cwd=repo, env=env, capture_output=True, text=True)
    passed = set()
    for tc in ET.parse(xml).getroot().iter("testcase"):
        if not any(ch.tag in ("failure", "error", "skipped") for ch in tc):
            passed.add("%s::%s" % (tc.get("classname"), tc.get("name")))
for f in os.listdir(repo):
    if f.startswith(".coverage"):
        os.remove(os.path.join(repo, f))
import shutil
shutil.rmtree(os.path.join(repo, ".hypothesis", "examples"), ignore_errors=True)
missing = [t for t in base["stable_pass"] if t not in passed]
# hypothesis-driven tests are randomised: re-run a missing test file up to twice before reporting it
for attempt in range(2):
    if not missing:
        break
    files = sorted({t.split("::")[0].replace(".", "/") + ".py" for t in missing})
    with tempfile.TemporaryDirectory() as td:
        xml = os.path.join(td, "j.xml")
        subprocess.run(["/venv/bin/python", "-m", "pytest", "-q", "-p", "no:cacheprovider", "--no-cov", "--junitxml=" + xml] + files,
                       cwd=repo, env=env, capture_output=True, text=True)
        for tc in ET.parse(xml).getroot().iter("testcase"):
            if not any(ch.tag in ("failure", "error", "skipped") for ch in tc):
                passed.add("%s::%s" % (tc.get("classname"), tc.get("name")))
    shutil.rmtree(os.path.join(repo, ".hypothesis", "examples"), ignore_errors=True)
    print("re-ran", files, "attempt", attempt + 1)
    missing = [t for t in base["stable_pass"] if t not in passed]
print("stable_pass:", len(base["stable_pass"]), "passed now:", len(passed), "missing:", len(missing))
for t in missing[:20]:
    print("  MISSING", t)
sys.exit(1 if missing else 0)
