"""Writes /verif/MANIFEST.json from checks/props.py (run under python3-vt)."""
import json, sys
sys.path.insert(0, "/verif")
from checks import props

TECH = "contract-based deductive verification (pyvc: VC generation from the Python AST of /repo/src, z3) with a bounded native stand-in"
NOT_APPLICABLE = {
    "C16": "equates two artefacts (generated LALR tables vs grammar) for all strings; no function contract expresses it (DESIGN.md section 3, C16)",
}
PENDING = json.load(open("/verif/tools/pending.json"))
checks = []
for pid, cfg in sorted(props.PROPS.items()):
    checks.append({
        "property_id": pid,
        "quick_cmd": "python3-vt -m checks.run %s --tier quick" % pid,
        "thorough_cmd": "python3-vt -m checks.run %s --tier thorough" % pid,
        "evidence_file": "/verif/evidence/%s.json" % pid,
        "replay_cmd_template": "/venv/bin/python {path}",
        "engine": "pyvc",
        "level_claimed": {"category": cfg.get("manifest_level", cfg.get("level", "proof")), "text": cfg["explanation"], "design_ref": "DESIGN.md section 3, " + pid},
        "level_note": "; ".join(cfg.get("trusted", []) + ["pyvc VC generator and builtin contracts (A1-A9)", "z3"]),
        "technique": cfg.get("technique", TECH),
    })
na = [{"property_id": k, "reason": v} for k, v in sorted(NOT_APPLICABLE.items())]
na += [{"property_id": k, "reason": v} for k, v in sorted(PENDING.items()) if k not in props.PROPS]
m = {
    "version": 1,
    "setup_cmd": "python3-vt -m checks.setup",
    "hooks": {"guard": "MEASURED_VERIF", "enable": "no hooks: contracts are sidecar files under /verif/contracts, the verifier reads /repo/src/measured/*.py directly",
              "baseline_off_cmd": "/venv/bin/python /verif/tools/baseline.py", "source_commits": [], "add_only": True},
    "engines": [{"name": "pyvc", "path": "/verif/pyvc", "serves_properties": sorted(props.PROPS),
                 "kind_free_text": "deductive: symbolic execution of the real Python AST per function against sidecar contracts, modular calls, z3 back end; native bounded stand-ins under /verif/native"}],
    "checks": checks,
    "notes": "Obligation ledger: baseline_obligations.json; findings: known_findings.json; fixes made in /repo are 'fix:' commits listed there.",
    "not_applicable": na,
}
json.dump(m, open("/verif/MANIFEST.json", "w"), indent=1)
print(len(checks), "checks,", len(na), "not applicable")
