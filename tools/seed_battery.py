"""Developer tool: run every seeded change (seeded/<id>/patch.diff) against its property check on a scratch copy of
/repo/src (never touches /repo), and every benign refactor (corpus/refactors/*.diff) against the checks it names.
usage: python3 tools/seed_battery.py [ids...]"""
import json, os, shutil, subprocess, sys, tempfile
ROOT = "/verif"
ids = sys.argv[1:] or sorted(d for d in os.listdir(os.path.join(ROOT, "seeded")) if "_" not in d)  # round-3 seeds (<ID>_A/B): pass them explicitly
summary = []
for sid in ids:
    d = os.path.join(ROOT, "seeded", sid)
    tmp = tempfile.mkdtemp(prefix="seedrun_")
    try:
        shutil.copytree("/repo/src", os.path.join(tmp, "src"))
        p = subprocess.run(["patch", "-p1", "-s", "-d", tmp, "-i", os.path.join(d, "patch.diff")], capture_output=True, text=True)
        if p.returncode != 0:
            summary.append((sid, "PATCH-FAILED", p.stdout[-200:]))
            continue
        env = dict(os.environ, VERIF_OUT=os.path.join(tmp, "out"), VERIF_SEED=os.environ.get("VERIF_SEED", "1"))
        prop = json.load(open(os.path.join(d, "meta.json")))["property"]
        c = subprocess.run(["python3-vt", "-m", "checks.run", prop, "--tier", "quick", "--src", os.path.join(tmp, "src")], cwd=ROOT, env=env, capture_output=True, text=True)
        lines = [l for l in c.stdout.splitlines() if l.startswith(("VIOLATION", "DEGRADED"))]
        summary.append((sid, "CAUGHT" if c.returncode == 1 and any(l.startswith("VIOLATION") for l in lines) else "MISSED(exit %d)" % c.returncode,
                        "; ".join(l[:110] for l in lines[:2])))
    finally:
        shutil.rmtree(tmp, ignore_errors=True)
    print(summary[-1], flush=True)
print("caught %d of %d" % (sum(1 for s in summary if s[1] == "CAUGHT"), len(summary)))
