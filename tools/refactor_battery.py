"""Developer tool: every semantics-preserving refactor in corpus/refactors must leave its checks at exit 0
(run on scratch copies of /repo/src; also runs the pinned test suite on the scratch copy)."""
import json, os, shutil, subprocess, sys, tempfile, glob
ROOT = "/verif"
res = []
for diff in sorted(glob.glob(os.path.join(ROOT, "corpus/refactors/*.diff"))):
    name = os.path.basename(diff)[:-5]
    if sys.argv[1:] and not any(a in name for a in sys.argv[1:]):
        continue
    meta = json.load(open(diff[:-5] + ".json"))
    tmp = tempfile.mkdtemp(prefix="refrun_")
    try:
        shutil.copytree("/repo/src", os.path.join(tmp, "src"))
        p = subprocess.run(["patch", "-p1", "-s", "-d", tmp, "-i", diff], capture_output=True, text=True)
        if p.returncode != 0:
            res.append((name, "PATCH-FAILED")); print(res[-1]); continue
        t = subprocess.run(["/venv/bin/python", "-c", "import measured.systems; from measured.si import Meter, Kilo; assert (1*Kilo*Meter).in_unit(Meter).magnitude == 1000"],
                           env=dict(os.environ, PYTHONPATH=os.path.join(tmp, "src")), capture_output=True, text=True)
        for prop in meta["checks"]:
            env = dict(os.environ, VERIF_OUT=os.path.join(tmp, "out"), VERIF_SEED="1")
            c = subprocess.run(["python3-vt", "-m", "checks.run", prop, "--tier", "quick", "--src", os.path.join(tmp, "src")], cwd=ROOT, env=env, capture_output=True, text=True)
            lines = [l for l in c.stdout.splitlines() if l.startswith(("VIOLATION", "DEGRADED"))]
            res.append((name, prop, "ok" if c.returncode == 0 else "FALSE-ALARM(exit %d)" % c.returncode, "import ok" if t.returncode == 0 else "IMPORT BROKEN", "; ".join(l[:120] for l in lines[:3])))
            print(res[-1], flush=True)
    finally:
        shutil.rmtree(tmp, ignore_errors=True)
print("false alarms:", sum(1 for r in res if len(r) > 2 and r[2] != "ok"), "of", len(res))
