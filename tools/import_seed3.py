"""Developer tool: copy the round-3 seeded changes from /tmp/seed3files into /verif/seeded/<ID>_<A|B>/ with a meta.json
built from the battery logs given on the command line (lines printed by tools/seed3_battery.py)."""
import ast, json, os, shutil, sys

DESC = {
    "C01:A": ("Unit.root interns the floor-divided candidate (and its power) before validating divisibility", "a refused root (also the one swallowed inside conversions._reduce_dimension) of a unit whose dimension divides but whose factor exponents do not"),
    "C01:B": ("Unit._dimension_of seeds the product with the first factor's dimension and drops its exponent", "as_ratio / pretty rendering of a unit whose numerator or denominator starts with an exponent >= 2 and was never interned"),
    "C02:A": ("Unit.__pow__ skips _simplify (early return for power 0 / One)", "a prefixed dimensionless unit ({One: 1} under a non-identity prefix) raised to a power: second object for the same value"),
    "C02:B": ("Prefix.__pow__ truncates the product exponent with int()", "powers of mixed-base prefixes (non-integral exponent)"),
    "C03:A": ("Quantity.root snaps near-integral roots with round(), which returns int for a Decimal", "root of a Decimal quantity whose root is a whole number"),
    "C03:B": ("Quantity.__add__/__sub__ return self when the right operand is zero, before the conversion (dimension gate)", "zero right operand of another dimension, or a Decimal zero"),
    "C04:A": ("_plan_conversion: the reflected _match_factors comprehension loses its endpoint swap", "source holds an unexpandable named derived unit (pint, quart) plus another factor, target spells the dimension in base powers"),
    "C04:B": ("convert fast path when both units have the same set of factor keys", "same named units with exponents distributed differently (m**2/ft -> ft**2/m)"),
    "C05:A": ("_find_path_recursive raises only the new hop to the exponent, not the recursive tail", "same pure power of units two or more declared hops apart (yd**2 -> pica**2)"),
    "C05:B": ("_plan_conversion appends _match_factors(end, start) unswapped", "compound unit with an unexpandable named volume unit (tsp/s -> in**3/s)"),
    "C06:A": ("Quantity.__truediv__ returns a bare number when both units have equal factors, ignoring prefixes", "quotient of like quantities under different prefixes ((10 km)/(5 m))"),
    "C06:B": ("Prefix.quantify rounds mixed-base prefix values to 12 decimals (absolute)", "tiny mixed-base prefixes (Femto*Byte, ns/GiB) in == < + - in_unit"),
    "C07:A": ("_reduce_dimension replaces try/except FractionalDimensionError by a factor-only divisibility pre-check", "prefix whose exponent is not divisible by the dimension gcd (Kilo * Bogus**2): FractionalDimensionError escapes"),
    "C07:B": ("_clean_remove pops the emptied bucket inside an assert", "python -O with a plan that goes through _replace_factors"),
    "C08:A": ("_forget_plans no longer clears _plan_conversion", "a pair converted successfully, then a declaration that changes its best plan, then the same pair again"),
    "C08:B": ("convert memoises results in an lru_cache keyed on the magnitude (typed=False)", "the same number converted once as Decimal and once as int/float for one unit pair"),
    "C09:A": ("_find_path_recursive applies the exponent to the first hop only", "HubbleVolume -> m**3 (cubed units two hops apart)"),
    "C09:B": ("_match_factors loop loses its early exit once the remaining dimension is Number", "named units with dimensionless factors (lumen, lux) no longer reach SI"),
    "C10:A": ("convert shortcut when both units carry the same non-identity prefix", "offset scales under equal prefixes (m-degC -> mK)"),
    "C10:B": ("Quantity.__eq__: two zero magnitudes are equal in any units", "0 K == 0 degC and the derived <= / >"),
    "C11:A": ("Unit._multiply returns bare One when the factors are reciprocal, dropping the prefixes", "(Kilo*Hertz)*Second and similar"),
    "C11:B": ("cross-base prefix arithmetic rounds the rebased exponent to 9 decimals", "Tebi/Zebi against SI prefixes and powers of cross-base prefixed units (error above 1e-9)"),
    "C12:A": ("Quantity.__lt__ compares raw magnitudes when they lie on opposite sides of zero", "offset scales (-5 degC < 10 K)"),
    "C12:B": ("Measurement.__eq__ as centre distance with the other uncertainty taken unconverted", "measurements in different units with a non-zero right uncertainty: asymmetric =="),
    "C13:A": ("late-declaration branch of Prefix.__init__ files the symbol under _by_name", "the one prefix created before its declaration (Deci): 'dm' does not parse"),
    "C13:B": ("lru_cache on Unit.resolve_symbol", "'hh' parsed before measured.us registers it as the symbol of hand"),
    "C14:A": ("Measurement.__rsub__ shortcut for a plain quantity reuses the bare uncertainty magnitude", "Quantity - Measurement in different convertible units"),
    "C14:B": ("Measurement.__pow__ returns zero uncertainty for a zero measurand", "zero measurand, exponent 1 (rebased on the tree after fix 00da73f)"),
    "C15:A": ("Quantity.__reduce__ through the (magnitude, str(unit)) composite form", "units whose text does not parse back to the same object (Kilo*Gram, Kibi*Byte)"),
    "C15:B": ("Quantity.__json__ writes ints beyond 2**53 as strings (decoded as Decimal)", "int magnitude >= 2**53: magnitude type changes"),
    "C17:A": ("Unit.resolve_symbol caches resolved prefix+symbol combinations in Unit._by_symbol", "a rejected text whose earlier tokens resolved a never-seen prefixed symbol"),
    "C17:B": ("from_superscript falls back to float when int() refuses", "superscript exponent of more than 4300 digits: AssertionError escapes"),
    "C18:A": ("LogarithmicUnit.level divides unprefixed magnitudes instead of converting to the reference unit", "quantity in a unit that differs from the reference by more than a prefix (psi vs dBSPL)"),
    "C18:B": ("Level.quantify Decimal branch with the power-ratio division inside the else arm", "Decimal level in nepers of a root-power reference"),
    "C19:A": ("Prefix.__init__ registers the name before checking the symbol conflict", "prefix with a symbol but no name, redeclared with a fresh name and another symbol"),
    "C19:B": ("lru_cache on Unit.resolve_symbol", "a text looked up (resolved by prefix split or name) before it is declared as a symbol"),
    "C20:A": ("Prefix.__new__ does not hand out a registered entry whose __init__ has not finished", "second thread enters between the first thread's __new__ and the end of its __init__"),
    "C20:B": ("Dimension.__new__ lock-free with dict.setdefault, return value ignored", "both threads pass the membership test before either inserts"),
}

DESC4 = {
    "C01:A": ("Unit._multiply fast path for a (prefixed) One operand passes self.dimension for the left-hand case", "left operand a prefixed dimensionless unit ((5 km)/(2 m)), product not interned before"),
    "C01:B": ("Unit.__from_json__ trusts the document's dimension field", "decoding a never-interned compound unit from a document whose dimension disagrees with its factors"),
    "C02:A": ("Unit.root returns self for every dimensionless unit", "root of a dimensionless unit that is not One (Radian**2, Meter/Foot)"),
    "C02:B": ("Dimension.root divides magnitudes and restores the exponent's sign only", "negative root degree"),
    "C03:A": ("Quantity.unprefixed multiplies raw instead of through _mul", "Decimal magnitude under a prefix that quantifies to a float (milli, mixed base): TypeError from commensurable + - == <"),
    "C03:B": ("Quantity.__pow__ returns 1 * One for exponent 0", "Decimal magnitude ** 0 comes back as int"),
    "C04:A": ("_find_path_recursive raises only the first hop to the reduced exponent", "unprefixed pure powers of units two declared hops apart (nmi**2 -> ft**2)"),
    "C04:B": ("_replace_factors pops the first unit of the dimension list instead of removing the replaced one", "two named units of one derived dimension on a side, the first without a finer alternative (pt*gal -> L**2)"),
    "C05:A": ("_cancel_factors flips the exponent inside the loop for invert=True", "start unit whose own factors cancel twice in one dimension (m*min*h/s**2)"),
    "C05:B": ("us.py: Cable declared as 100 fathoms next to the metric value of 120 fathoms", "any triple containing Cable and Fathom: route dependence of 20 %"),
    "C06:A": ("_find_path_recursive raises only the first hop to the exponent", "mile**2 vs inch**2 in + - == <"),
    "C06:B": ("Prefix.__pow__ truncates the exponent with int()", "** of a quantity whose unit carries a mixed-base prefix (Kilo*Byte)"),
    "C07:A": ("_plan_conversion failure message indexes the (possibly empty) list of unmatched source factors", "impossible compound conversion whose leftovers are all on the target side: IndexError"),
    "C07:B": ("_match_factors asserts that the combined start factor has the end factor's dimension", "compound with a denominator against a bare unit of a mixed-sign derived dimension: AssertionError, absent under -O"),
    "C08:A": ("_inline_paths zeroes the offsets of a memoised path in place for negative exponents", "a compound query with a scale in a denominator, then the plain scale conversion"),
    "C08:B": ("convert widens decimal.getcontext().prec for long Decimal magnitudes and never restores it", "a 19+-digit Decimal query, then a Decimal conversion with an inexact ratio"),
    "C10:A": ("Quantity.unprefixed shifts the decimal point (scaleb) for Decimal magnitudes whatever the prefix base", "Decimal temperature under a binary prefix"),
    "C10:B": ("cross-unit branch of Quantity.__lt__ uses <=", "equal temperatures written in two scales compared with < or >="),
    "C11:A": ("Unit.root fast path for a single factor whose exponent equals the degree returns the bare factor", "((p*u)**n).root(n), (Kilo*Meter).root(1)"),
    "C11:B": ("_plan_conversion refactor: loop variables rebind `end` before the target prefix is divided out", "prefixed target whose underlying unit the planner expands (Milli*Liter, Kilo*Calorie)"),
    "C12:A": ("explicit Quantity.__ne__ that does not convert between base units", "equal quantities in different convertible units: == and != both True, > inconsistent"),
    "C12:B": ("Quantity.__hash__ from repr()", "equal quantities of one unit with magnitudes 1, 1.0, Decimal('1')"),
    "C13:A": ("grammar WS redefined without newline, carriage return and form feed (measured.lark and _parser.py)", "texts whose whitespace is a newline or form feed"),
    "C13:B": ("us.py: Knot gets the alias symbol 'kt'", "str(Kilo*Tonne) == 'kt' now parses to knot"),
    "C14:A": ("scaled hypot helper without abs() in Measurement * and /", "one exact operand and a negative remaining term"),
    "C14:B": ("Quantity.root rounds roots of whole-valued magnitudes", "+ / - of measurements whose variances add up to a whole non-square number"),
    "C15:A": ("Prefix.__from_json__ coerces base and exponent with int()", "JSON of mixed-base prefixes and units carrying them"),
    "C15:B": ("Quantity.__json__ writes the unit in ratio format", "prefixed compound units whose ratio form does not parse (gray, kilowatt-hour)"),
    "C17:A": ("lru_cache on the transformer's quantity callback (untyped)", "'1 m' then '1.0 m': magnitude type of the first"),
    "C17:B": ("Quantity.parse fast path trusting str.isdigit() before int()", "'² m': ValueError escapes"),
    "C18:A": ("power_ratio halved for base-e logarithms", "every neper level against the closed form"),
    "C18:B": ("LogarithmicUnit.__init__ divides the reference's prefix out instead of multiplying it in", "reference given in a prefixed unit object (1 * (Milli*Watt))"),
    "C19:A": ("Unit.derive returns early when the name is already bound to the unit", "re-derive under the same name with a new (or taken) symbol"),
    "C19:B": ("conversions.translate gains a dimension check that fires after Dimension.scale registered the unit", "Dimension.scale with a zero point of another dimension raises and leaves the unit registered"),
    "C20:A": ("one lazily created lock per registry key", "two threads create different lock objects for one key"),
    "C20:B": ("two-variable module-level memo of the last base-change ratio in Prefix.__mul__/__truediv__", "torn update between two threads multiplying mixed-base prefixes"),
    "C09:A": ("_by_complex_first sorts by numerator degree minus denominator degree (inverse dimensions after Number)", "lux (dimensionless factors and a denominator) no longer reaches cd/m**2"),
    "C09:B": ("us.py: the litre value of the hogshead declared on Barrel (silently overwriting the barrel-litre ratio)", "barrel <-> L and shortest paths through that edge"),
}
DESC5 = {
    "C01:A": ("Dimension.root ported to integer % with abs(degree), the magnitude reused for the quotient", "root of negative degree of a compound unit not interned yet"),
    "C01:B": ("Dimension.define re-keys only the named dimensions (under the interning lock)", "a fundamental dimension defined at run time after units exist"),
    "C02:A": ("Unit._build_key sorts factor items by the NFKD form of the symbol (can tie)", "two base units whose symbols are NFKD-equivalent: a*b and b*a are two objects"),
    "C02:B": ("Prefix.__new__ normalises to IdentityPrefix when isclose(base**exponent, 1)", "same-base prefix powers beyond the float range raise OverflowError"),
    "C03:A": ("error message of the dimension gate uses dimension.name.title()", "+ - in_unit between different dimensions, one of them unnamed: AttributeError"),
    "C03:B": ("Quantity.__abs__ split into int / math.fabs branches", "abs of a Decimal quantity is a float"),
    "C04:A": ("_match_factors exponent rule rewritten (wrong for the Number dimension)", "dimensionless named unit in a numerator going through the plan builder"),
    "C04:B": ("_splat ported to itertools.groupby without sorting", "three or more factors with two non-adjacent factors of one dimension on both sides"),
    "C05:A": ("convert rounds Decimal results to 15 decimal places", "Decimal magnitude whose converted value is tiny"),
    "C05:B": ("_reduce_dimension tries smaller roots but returns the outer gcd", "pure power n>=2 of named derived-dimension units whose dimension gcd exceeds n"),
    "C06:A": ("Quantity.__sub__ written as self + (-other)", "right operand in an offset scale, left operand in another unit"),
    "C06:B": ("planner ported to a Step NamedTuple, the reflected match loses its swap", "compound unit with an unexpandable US volume unit"),
    "C07:A": ("ConversionNotFound gets (start, end) arguments; the raise in _reduce_dimension keeps the old call", "impossible conversion pairing units of different dimensions: TypeError"),
    "C07:B": ("new reciprocal-hop path search ends in min() of a possibly empty list", "impossible conversion between units of mutually inverse dimensions: ValueError"),
    "C08:A": ("_replace_factors stores the sorted alternatives back into _ratios[unit]", "a compound query reorders a unit's declared neighbours; a later conversion takes another route"),
    "C08:B": ("translate refuses a second zero point using `in` on a defaultdict that queries auto-vivify", "any earlier query that expanded the unit makes a later translate raise"),
    "C09:A": ("Prefix.root raises a new FractionalPrefixError that _reduce_dimension does not catch", "gray / sievert no longer convert to m**2/s**2"),
    "C09:B": ("si.py: sievert defined as its own unit of RadioactiveDose (L2 T-3) and equated to gray", "sievert cannot reach the coherent SI unit of its dimension"),
    "C10:A": ("Decimal branch of _add.._pow goes through Fraction.limit_denominator()", "Decimal magnitudes under nano-or-smaller / Giga-or-larger prefixes"),
    "C10:B": ("convert clamps values below zero after an offset hop", "temperatures below absolute zero along a path with a degC->K or degF->R hop"),
    "C11:A": ("Quantity.unprefixed divides by 10**-exponent whatever the base", "base-2 prefixes with negative exponents (Bit/Byte, Pico*Byte)"),
    "C11:B": ("both prefixes settled in one step at the end of the plan", "prefixed source on a path with an offset (kK -> degC)"),
    "C12:A": ("Quantity.__eq__ uses math.isclose after conversion, __lt__ stays exact", "quantities less than 1e-9 relative apart in different units"),
    "C12:B": ("Measurement.__eq__ overlap test as chained bound-within-me comparisons", "left interval strictly nested in the right one: asymmetric =="),
    "C13:A": ("int and float magnitude callbacks merged through float()", "integer magnitudes beyond 2**53"),
    "C13:B": ("term callback: `exponent or 1`", "explicit zeroth power spellings (m^0)"),
    "C14:A": ("Quantity / Quantity of like units returns a plain number after converting", "Measurement / Measurement in different units of one dimension"),
    "C14:B": ("shared quadrature helper sums with built-in sum()", "* or / with exactly one Decimal contribution: TypeError"),
    "C15:A": ("unit names case-folded in the registry, pickle/JSON paths not", "base units whose name has an uppercase letter"),
    "C15:B": ("MeasuredJSONEncoder defaults allow_nan to False", "infinite float magnitudes through the installed codecs"),
    "C17:A": ("Unit.parse falls back to parsing a quantity and taking logs of the magnitude", "texts with a zero, negative or overflowing leading number: ValueError / OverflowError"),
    "C17:B": ("lexer errors name the character with unicodedata.name() (no default)", "unnamed characters (controls, private use): ValueError"),
    "C18:A": ("Level.__init__ snaps near-integer float magnitudes (isclose, rel 1e-9)", "levels within 1e-9 of a whole number: not strictly increasing, quantify off"),
    "C18:B": ("ROOT_POWER_DIMENSIONS comprehension with range(1, 3)", "references of volume charge density get k = 1"),
    "C19:A": ("NFC normalisation in Unit.alias after the uniqueness checks", "a non-NFC name/symbol whose NFC form is taken rebinds it"),
    "C19:B": ("resolve_symbol tries prefix-name + unit-name before the exact name", "'kilogram' resolves to Kilo*Gram"),
    "C20:A": ("lock-free scan of Prefix._known for float exponents in Prefix.__new__", "registration by another thread during the scan: RuntimeError"),
    "C20:B": ("Unit.__init__ rebuilds self.factors item by item", "second thread re-running __init__ while the first multiplies the unit"),
}
DESC6 = {
    "C01:A": ("Unit.__pow__ single-factor fast path raises self.dimension to the COMBINED exponent", "a power of an already-powered single-factor unit not interned yet ((Furlong**2)**2)"),
    "C02:A": ("Unit.derive builds a separate, non-interned object for a second name of a named combination", "Sievert: u * One is Gray, not Sievert"),
    "C03:A": ("Quantity.__rtruediv__ accepts a Unit and returns (1 / self) * other", "Unit / Quantity yields the product dimension"),
    "C04:A": ("_reduce_dimension tries smaller roots and returns the full gcd", "pure powers of named derived units (gal**2 -> L**2)"),
    "C05:A": ("Quantity.unprefixed: exact Decimal scaling with int(prefix.exponent)", "Decimal magnitude under a mixed-base prefix (Kilo*Byte)"),
    "C06:A": ("Quantity.__eq__ rejects operands of opposite signs before converting", "physically equal temperatures of opposite sign on different offset scales"),
    "C07:A": ("Quantity + / - fall back to the commuted operation when the conversion is not found", "same dimension, no conversion either way: RecursionError"),
    "C08:A": ("module-level set of (unit, destination) cul-de-sacs in the path search", "a conversion that walks into a single-neighbour unit, then a conversion starting from it"),
    "C09:A": ("eu.py: a Reaumur scale through Dimension.scale plus an explicit 1.25 degC equivalence", "scale() silently declares 1 degRe = 1 K: the cycle disagrees by 25 %"),
    "C10:A": ("convert rounds floats to 10 places after each offset hop", "magnitudes within picokelvins of a zero point"),
    "C11:A": ("convert fast path for equal factors rescales by one base", "the same unit under an SI and an IEC prefix (Kibi*Bit -> Kilo*Bit)"),
    "C12:A": ("Quantity.__eq__ fast path scaling by the float prefix ratio", "integers beyond 2**53 under different prefixes of one base: asymmetric =="),
    "C13:A": ("str() of a prefixed named derived unit as prefix + its symbol, ignoring the unit's own prefix", "SI prefix times Gray: 'uGy' for Milli*Gray"),
    "C14:A": ("Measurement.in_unit converts the uncertainty as a difference of two converted points", "+ / - across units with |x| / sigma beyond 1e7"),
    "C15:A": ("Quantity.__from_json__ decodes integral strings as int", "Decimal('5') comes back as int 5 through JSON"),
    "C17:A": ("Prefix.__new__ raises ValueError for non-finite float exponents", "mixed-base units with exponents of 306-308 digits"),
    "C18:A": ("Level.quantify floor-divides int exponents by the power ratio", "odd int levels of unprefixed root-power units (3 Bel re 1 V)"),
    "C19:A": ("Dimension.scale rolls back by name and symbol when anything fails", "scale() with a taken name or symbol unbinds the existing owner"),
    "C20:A": ("per-base bucket of Prefix created outside the lock", "two threads constructing the first prefix of a new base"),
}
DESC7 = {
    "C01:A": ("Unit.__from_json__ expands listed factors to base units with dict.update", "a document listing derived factors that share a base unit (J and s): dimension computed from the listed factors, factors overwritten"),
    "C02:A": ("Prefix * and / change base through math.log(other.quantify(), base)", "cross-base products with an operand scale below the float range (10**-330): log(0.0)"),
    "C03:A": ("Unit.__mul__ treats everything that is not a unit/prefix/logarithm/text as a magnitude", "Unit * Quantity builds a Quantity whose magnitude is a Quantity"),
    "C04:A": ("Pottle.equals(1.892075892 * Liter) (two digits transposed)", "pottle conversions, against sizes derived from 231 cubic inches per gallon"),
    "C05:A": ("Prefix.quantify rounds float-exponent values within 1e-9 of an integer", "cross-base prefixes: Kilo*Byte quantifies as int 8000 while routes through the float differ"),
    "C06:A": ("Quantity.unprefixed shifts a Decimal magnitude with scaleb(prefix.exponent) whatever the base", "Decimal magnitudes under IEC prefixes (scaleb is a power of ten)"),
    "C07:A": ("_pair_identical_factors removes units present on both sides before matching", "source with two metres, target with one metre plus an unconnected unit: KeyError/other instead of ConversionNotFound"),
    "C08:A": ("Prefix.root keeps the exponent through _div (float exponent)", "a root taken by an earlier conversion leaves a float-exponent prefix interned; later equal conversions differ"),
    "C09:A": ("Hectare.equals(0.01 * Kilo * Meter**2) added", "hectare cycle: 0.01 (km)**2 is 10**4 m**2 only if the prefix is squared; the declaration disagrees with hm**2"),
    "C10:A": ("_compose folds the hops of a memoised plan by multiplying scales and ADDING offsets", "two-hop temperature paths (Fahrenheit -> Celsius -> Kelvin)"),
    "C11:A": ("Prefix * and / always go through the float base-change expression, also for equal bases", "same-base products get float exponents (Kilo*Milli has exponent 0.0)"),
    "C12:A": ("Cable.equals(100 * Fathom)", "order of cables against fathoms/metres, physical values from the 120-fathom definition"),
    "C13:A": ("str() of a quantity rounds float magnitudes to 12 places after folding the prefix", "small float magnitudes under 10**-n prefixes: parse(str(q)) != q"),
    "C14:A": ("conversion fast path for equal factors shifts by 10**(difference of exponents) whatever the base", "Measurement + / - across IEC prefixes"),
    "C15:A": ("Unit.__json__ writes the prefix as its name", "compound units whose combined prefix has no registered name: KeyError(None) on decode"),
    "C17:A": ("parser returns Decimal(text) for float literals that overflow to inf", "'1e999 m' parses to a Decimal magnitude; exponents beyond Decimal's range raise InvalidOperation"),
    "C18:A": ("Logarithm.__mul__ merges cross-base prefixes with equal exponents as (a*b)**(2n)", "Deci * Semitone (10**-1 and 12**-1): prefix 120**-2"),
    "C19:A": ("Prefix.resolve_symbol maps 'u' and the micro sign to the Greek mu first", "a new prefix declared with symbol 'u' is never found by its own symbol"),
    "C20:A": ("Unit._product answers arithmetic from a lock-free read of Unit._known", "another thread between registration and __init__: a unit without fields is returned"),
}
ROUND, SRC, SUF = 3, "/tmp/seed3files", ""
if os.environ.get("SEEDROUND") == "7":
    DESC, ROUND, SRC, SUF = DESC7, 7, "/tmp/seed7files", "7"
if os.environ.get("SEEDROUND") == "6":
    DESC, ROUND, SRC, SUF = DESC6, 6, "/tmp/seed6files", "6"
if os.environ.get("SEEDROUND") == "5":
    DESC, ROUND, SRC, SUF = DESC5, 5, "/tmp/seed5files", "5"
if os.environ.get("SEEDROUND") == "4":
    DESC, ROUND, SRC, SUF = DESC4, 4, "/tmp/seed4files", "4"

res = {}
for path in sys.argv[1:]:
    for line in open(path):
        if line.startswith("('C"):
            t = ast.literal_eval(line.strip())
            res["%s:%s" % (t[0], t[1])] = t  # later logs override earlier ones
for key, (change, needs) in sorted(DESC.items()):
    pid, x = key.split(":")
    src = "%s/%s" % (SRC, pid)
    if not os.path.exists("%s/%s.diff" % (src, x)):
        continue
    dst = "/verif/seeded/%s_%s%s" % (pid, SUF, x)
    os.makedirs(dst, exist_ok=True)
    shutil.copy("%s/%s.diff" % (src, x), dst + "/patch.diff")
    shutil.copy("%s/demo_%s.py" % (src, x), dst + "/demo.py")
    t = res.get(key)
    lines = t[5] if t and len(t) > 5 else ""
    how = "not run" if not t else ("bounded stand-in (failing input replayed)" if "violation_" in lines else
                                   "failed obligation of changed code (no-failing-input-found)" if "refuted_" in lines else t[2])
    json.dump({"property": pid, "round": ROUND, "change": change, "needs_to_manifest": needs,
               "result": t[2] if t else "not run", "caught_by": how, "first_lines": lines[:300],
               "ran": ["demo exits 0 on the unchanged tree and 1 with the patch (%s)" % (t[3] if t else "?"),
                       "pinned suite run by the authoring sub-agent in its worktree (872 passed with the two always-failing files deselected)",
                       "tools/seed3_battery.py: python3-vt -m checks.run %s --tier quick --src <scratch copy with the patch>" % pid],
               "origin": "fresh sub-agent given only the property text (statement, quantifier, anchors) and a scratch worktree"},
              open(dst + "/meta.json", "w"), indent=1)
print("imported round", ROUND)
