"""Developer tool: systematic AST mutants of the functions under contract, on scratch copies (never touches /repo).

For every function that some non-trusted contract's VCs depend on (ledger "__deps__"), apply small mutation
operators to its body, re-verify the contracts that depend on it (deductive part only, no stand-ins) and report
  killed-by-proof   some obligation is no longer discharged
  survived          every obligation still discharged -> then the pinned tests are run on the mutant:
                    killed-by-tests / SURVIVED-BOTH (equivalent mutant or a gap in the contracts: triage by hand)
usage: python3-vt tools/mutation_battery.py [--per-fn N] [--jobs J] [--only substring] [--tests]
Results: corpus/mutation_report.json
"""
import ast, copy, json, os, random, shutil, subprocess, sys, tempfile, time
from concurrent.futures import ProcessPoolExecutor, as_completed
sys.path.insert(0, "/verif")
ROOT = "/verif"


def arg(name, default):
    for i, a in enumerate(sys.argv):
        if a == name:
            return sys.argv[i + 1]
    return default


PER_FN = int(arg("--per-fn", "8"))
JOBS = int(arg("--jobs", "5"))
ONLY = arg("--only", "")
TESTS = "--tests" in sys.argv

BIN = {ast.Add: ast.Sub, ast.Sub: ast.Add, ast.Mult: ast.Div, ast.Div: ast.Mult, ast.FloorDiv: ast.Div, ast.Pow: ast.Mult}
CMP = {ast.Lt: ast.LtE, ast.LtE: ast.Lt, ast.Gt: ast.GtE, ast.GtE: ast.Gt, ast.Eq: ast.NotEq, ast.NotEq: ast.Eq, ast.Is: ast.IsNot, ast.IsNot: ast.Is,
       ast.In: ast.NotIn, ast.NotIn: ast.In}


def mutants(fn_node):
    """yield (description, mutated copy of the FunctionDef)"""
    nodes = list(ast.walk(fn_node))
    for idx, n in enumerate(nodes):
        def clone():
            c = copy.deepcopy(fn_node)
            return c, list(ast.walk(c))[idx]
        if isinstance(n, ast.BinOp) and type(n.op) in BIN:
            c, m = clone(); m.op = BIN[type(n.op)](); yield "line %d: %s -> %s" % (n.lineno, type(n.op).__name__, type(m.op).__name__), c
        elif isinstance(n, ast.Compare) and len(n.ops) == 1 and type(n.ops[0]) in CMP:
            c, m = clone(); m.ops = [CMP[type(n.ops[0])]()]; yield "line %d: %s -> %s" % (n.lineno, type(n.ops[0]).__name__, type(m.ops[0]).__name__), c
        elif isinstance(n, ast.BoolOp):
            c, m = clone(); m.op = ast.Or() if isinstance(n.op, ast.And) else ast.And(); yield "line %d: and <-> or" % n.lineno, c
        elif isinstance(n, ast.If):
            c, m = clone(); m.test = ast.UnaryOp(op=ast.Not(), operand=m.test); yield "line %d: negate if" % n.lineno, c
        elif isinstance(n, ast.UnaryOp) and isinstance(n.op, ast.USub):
            c, m = clone(); m.op = ast.UAdd(); yield "line %d: drop unary minus" % n.lineno, c
        elif isinstance(n, ast.Constant) and isinstance(n.value, int) and not isinstance(n.value, bool) and -3 <= n.value <= 3:
            c, m = clone(); m.value = n.value + 1; yield "line %d: constant %d -> %d" % (n.lineno, n.value, n.value + 1), c
            if n.value in (0, 1):
                c, m = clone(); m.value = 1 - n.value; yield "line %d: constant %d -> %d" % (n.lineno, n.value, 1 - n.value), c
        elif isinstance(n, (ast.Assign, ast.AugAssign)) and not (isinstance(n, ast.Assign) and isinstance(n.value, ast.Constant) and isinstance(n.value.value, str)):
            # delete the statement (replace by pass) when a later use keeps the function compilable: try and let the compiler decide
            c, m = clone()
            for parent in ast.walk(c):
                for fld in ("body", "orelse", "finalbody"):
                    lst = getattr(parent, fld, None)
                    if isinstance(lst, list) and m in lst:
                        lst[lst.index(m)] = ast.Pass()
            yield "line %d: delete statement" % n.lineno, c
        elif isinstance(n, ast.Raise):
            c, m = clone()
            for parent in ast.walk(c):
                for fld in ("body", "orelse", "finalbody"):
                    lst = getattr(parent, fld, None)
                    if isinstance(lst, list) and m in lst:
                        lst[lst.index(m)] = ast.Pass()
            yield "line %d: delete raise" % n.lineno, c
        elif isinstance(n, ast.Return) and isinstance(n.value, ast.Call) and n.value.args and len(n.value.args) >= 2:
            c, m = clone(); m.value.args[0], m.value.args[1] = m.value.args[1], m.value.args[0]; yield "line %d: swap first two arguments of returned call" % n.lineno, c


def splice(path, fn_node, new_node):
    src = open(path, encoding="utf-8").read().splitlines(keepends=True)
    start = min([fn_node.lineno] + [d.lineno for d in fn_node.decorator_list]) - 1
    end = fn_node.end_lineno
    indent = " " * fn_node.col_offset
    text = ast.unparse(ast.fix_missing_locations(new_node))
    new = "".join(indent + l + "\n" for l in text.splitlines())
    return "".join(src[:start]) + new + "".join(src[end:])


def run_one(job):
    relfile, qual, desc, new_source, dependents = job
    tmp = tempfile.mkdtemp(prefix="mut_")
    try:
        shutil.copytree("/repo/src", os.path.join(tmp, "src"))
        open(os.path.join(tmp, "src", relfile), "w", encoding="utf-8").write(new_source)
        p = subprocess.run(["/venv/bin/python", "-c", "import measured.systems"], env=dict(os.environ, PYTHONPATH=os.path.join(tmp, "src")), capture_output=True, text=True)
        if p.returncode != 0:
            return dict(qual=qual, desc=desc, verdict="does-not-import")
        from checks.run import _verify_one
        os.environ["VERIF_INNER"] = "1"
        failed = []
        for dq in dependents:
            r = _verify_one((dq, os.path.join(tmp, "src"), 8000, HINTS))
            if r.get("error"):
                failed.append(dq + ": " + r["error"].splitlines()[0][:100])
            for oid, res in r["results"].items():
                if res["status"] != "discharged" and "canary_" not in oid:
                    failed.append("%s %s" % (oid, res["status"]))
            if failed:
                break
        if failed:
            return dict(qual=qual, desc=desc, verdict="killed-by-proof", obligations=failed[:4])
        verdict = "survived-proof"
        if TESTS:
            shutil.copytree("/repo/tests", os.path.join(tmp, "tests"))
            for f in ("setup.cfg", "pyproject.toml", "README.md", "conftest.py"):
                if os.path.exists("/repo/" + f):
                    shutil.copy("/repo/" + f, tmp)
            t = subprocess.run(["/venv/bin/python", "-m", "pytest", "-q", "-x", "-p", "no:cacheprovider", "--no-cov", "-n", "0", "--deselect", "tests/test_cli.py",
                                "--deselect", "tests/test_pydantic_and_json.py", "-p", "no:randomly"], cwd=tmp, env=dict(os.environ, PYTHONPATH=os.path.join(tmp, "src")),
                               capture_output=True, text=True, timeout=900)
            verdict = "SURVIVED-BOTH" if t.returncode == 0 else "killed-by-tests"
        return dict(qual=qual, desc=desc, verdict=verdict)
    except Exception as e:
        return dict(qual=qual, desc=desc, verdict="error", note=str(e)[:200])
    finally:
        shutil.rmtree(tmp, ignore_errors=True)


ledger = json.load(open(os.path.join(ROOT, "baseline_obligations.json")))
HINTS = {}
for prop, obl in ledger.items():
    if prop != "__deps__":
        for oid, v in obl.items():
            if isinstance(v, dict) and v.get("strategy") not in (None, "plain-fast"):
                HINTS[oid] = v["strategy"]


def main():
    from pyvc.frontend import Program
    prog = Program("/repo/src")
    dependents = {}  # executed function -> contracts whose VCs depend on it
    for prop, fns in ledger.get("__deps__", {}).items():
        for q, deps in fns.items():
            if q.startswith("lemmas."):
                continue
            for f in deps:
                dependents.setdefault(f, set()).add(q)
    rng = random.Random(7)
    jobs = []
    for f in sorted(dependents):
        if ONLY and ONLY not in f:
            continue
        fi = prog.func(f)
        if fi is None or f.startswith("lemmas."):
            continue
        path = prog.modules[fi.module].path
        rel = os.path.relpath(path, "/repo/src")
        ms = []
        for desc, node in mutants(fi.node):
            try:
                new_src = splice(path, fi.node, node)
                compile(new_src, rel, "exec")
            except Exception:
                continue
            ms.append((desc, new_src))
        rng.shuffle(ms)
        for desc, new_src in ms[:PER_FN]:
            jobs.append((rel, f, desc, new_src, sorted(dependents[f])))
    print("%d mutants over %d functions" % (len(jobs), len({j[1] for j in jobs})), flush=True)
    out = []
    t0 = time.time()
    with ProcessPoolExecutor(max_workers=JOBS) as ex:
        futs = [ex.submit(run_one, j) for j in jobs]
        for k, fu in enumerate(as_completed(futs)):
            r = fu.result()
            out.append(r)
            if r["verdict"] not in ("killed-by-proof",):
                print(r["verdict"], r["qual"], r["desc"], flush=True)
            if k % 20 == 19:
                print("  .. %d/%d done, %.0fs" % (k + 1, len(jobs), time.time() - t0), flush=True)
    summary = {}
    for r in out:
        summary[r["verdict"]] = summary.get(r["verdict"], 0) + 1
    print(summary)
    os.makedirs(os.path.join(ROOT, "corpus"), exist_ok=True)
    json.dump({"summary": summary, "mutants": sorted(out, key=lambda r: (r["qual"], r["desc"]))}, open(os.path.join(ROOT, "corpus", "mutation_report.json"), "w"), indent=1)


if __name__ == "__main__":
    main()
