"""Developer tool: run every native stand-in for several seeds on the current tree and list unlisted failures."""
import json, os, subprocess, sys, tempfile
sys.path.insert(0, "/verif")
findings = json.load(open("/verif/known_findings.json"))
props = sorted(f[2:5].upper() for f in os.listdir("/verif/native") if f.startswith("p_c"))
only = [a for a in sys.argv[1:] if a.startswith("C")]
props = [p for p in props if not only or p in only]
seeds = [int(s) for s in ([a for a in sys.argv[1:] if not a.startswith("C")] or ["0", "1", "2", "3", "4", "5"])]
bad = 0
for p in props:
    keys = [k for f in findings if f["property"] == p and f["status"] == "open" for k in f.get("native_keys", [])]
    for sd in seeds:
        out = tempfile.mktemp(suffix=".json")
        subprocess.run(["/venv/bin/python", "-m", "native.run", p, "--tier", os.environ.get("SWEEP_TIER", "quick"), "--seed", str(sd), "--out", out], cwd="/verif", capture_output=True)
        r = json.load(open(out)); os.remove(out)
        fails = [f for f in r["failures"] if not any(f["key"].startswith(k) for k in keys)]
        if fails or r.get("error"):
            bad += 1
            print(p, "seed", sd, [(f["key"], f["desc"][:160]) for f in fails], (r.get("error") or "")[-200:])
print("sweep done:", len(props), "properties x", len(seeds), "seeds;", bad, "runs with unlisted failures")
