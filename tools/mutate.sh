#!/bin/bash
# usage: tools/mutate.sh '<python-replace-old>' '<new>' qual...   (applies to src/measured/__init__.py on a scratch copy)
old="$1"; new="$2"; shift 2
d=$(mktemp -d /tmp/mut.XXXX); cp -r /repo/src $d/src
python3 - "$d/src/measured/${MUTFILE:-__init__.py}" "$old" "$new" <<'PY'
import sys
p,old,new=sys.argv[1:4]
s=open(p).read()
assert old in s, "pattern not found"
open(p,'w').write(s.replace(old,new,1))
PY
VERIF_SRC=$d/src python3-vt /verif/checks/prove.py "$@" 2>&1 | grep -v "discharged\|WARNING"
rm -rf $d
