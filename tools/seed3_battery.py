"""Developer tool: run the round-3 seeded changes (/tmp/seed3/<ID>/{A,B}.diff or seeded/<ID>_<X>/patch.diff) against their
property check on scratch copies of /repo/src (never touches /repo).
usage: python3 tools/seed3_battery.py [--no-native] [dir] [ID[:A|B] ...]"""
import glob, json, os, shutil, subprocess, sys, tempfile
ROOT = "/verif"
args = [a for a in sys.argv[1:] if not a.startswith("--")]
nn = "--no-native" in sys.argv
base = os.environ.get("SEEDBASE", "/tmp/seed3files")
cases = []
for d in sorted(glob.glob(base + "/C*")):
    pid = os.path.basename(d)
    for x in ("A", "B"):
        if os.path.exists(os.path.join(d, x + ".diff")):
            cases.append((pid, x, os.path.join(d, x + ".diff"), os.path.join(d, "demo_%s.py" % x)))
sh = [a for a in sys.argv[1:] if a.startswith("--shard=")]
args = [a for a in args if not a.startswith("--")]
if args:
    cases = [c for c in cases if c[0] in args or "%s:%s" % (c[0], c[1]) in args]
if sh:
    i, n = map(int, sh[0].split("=")[1].split("/"))
    cases = cases[i::n]
summary = []
for pid, x, diff, demo in cases:
    tmp = tempfile.mkdtemp(prefix="seed3run_")
    try:
        shutil.copytree("/repo/src", os.path.join(tmp, "src"))
        envd = dict(os.environ, PYTHONPATH=os.path.join(tmp, "src"))
        d0 = subprocess.run(["/venv/bin/python", demo], env=envd, capture_output=True, text=True, cwd=tmp).returncode
        p = subprocess.run(["patch", "-p1", "-s", "-d", tmp, "-i", diff], capture_output=True, text=True)
        if p.returncode != 0:
            summary.append((pid, x, "PATCH-FAILED", p.stdout[-200:])); print(summary[-1], flush=True); continue
        d1 = subprocess.run(["/venv/bin/python", demo], env=envd, capture_output=True, text=True, cwd=tmp).returncode
        env = dict(os.environ, VERIF_OUT=os.path.join(tmp, "out"), VERIF_SEED=os.environ.get("VERIF_SEED", "1"))
        cmd = ["python3-vt", "-m", "checks.run", pid, "--tier", "quick", "--src", os.path.join(tmp, "src")] + (["--no-native"] if nn else [])
        c = subprocess.run(cmd, cwd=ROOT, env=env, capture_output=True, text=True)
        lines = [l for l in c.stdout.splitlines() if l.startswith(("VIOLATION", "DEGRADED"))]
        nv, nd = sum(l.startswith("VIOLATION") for l in lines), sum(l.startswith("DEGRADED") for l in lines)
        summary.append((pid, x, "CAUGHT" if c.returncode == 1 and nv else "MISSED(exit %d)" % c.returncode, "demo %d->%d" % (d0, d1), "viol %d degraded %d" % (nv, nd),
                        "; ".join(l[:140] for l in lines[:2])))
    finally:
        shutil.rmtree(tmp, ignore_errors=True)
    print(summary[-1], flush=True)
print("caught %d of %d" % (sum(1 for s in summary if s[2] == "CAUGHT"), len(summary)))
