#!/bin/bash
# developer command: refresh the obligation ledger for every property (twice, so that strategy hints converge)
cd /verif
for round in 1 2; do
  for p in C01 C02 C03 C04 C05 C06 C07 C08 C09 C10 C11 C12 C13 C14 C15 C17 C18 C19 C20; do
    python3-vt -m checks.run $p --tier quick --update-ledger 2>&1 | grep -v "^WARNING\|KNOWN-FINDING\|^ledger" | cut -c1-220 | tail -3
  done
done
