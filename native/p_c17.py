"""C17 stand-in (bounded): parsing is total (Unit/Quantity or ParseError/KeyError), deterministic,
and a rejected input leaves the registries unchanged."""
from .common import namespace, pools, seed_rng

CHECK = '''
def c17_check(text, ns):
    import measured
    from measured.parsing import ParseError
    U = measured.Unit
    before = (dict(U._by_name), dict(U._by_symbol), dict(measured.Prefix._by_name), dict(measured.Prefix._by_symbol), dict(measured.Dimension._by_name))
    bad = []
    outs = []
    for parse, kind in ((U.parse, measured.Unit), (measured.Quantity.parse, measured.Quantity)):
        res = []
        for _ in range(2):
            try:
                r = parse(text)
                res.append(("ok", r))
                if not isinstance(r, kind): bad.append("type: %s(%r) returned %r" % (parse.__qualname__, text, type(r).__name__))
                if kind is measured.Quantity and not isinstance(r.magnitude, (int, float)): bad.append("magnitude: %r has magnitude type %s" % (text, type(r.magnitude).__name__))
            except (ParseError, KeyError) as e:
                res.append(("rejected", type(e).__name__))
            except Exception as e:
                res.append(("rejected", type(e).__name__))
                bad.append("exception: %s(%r) raised %s" % (parse.__qualname__, text if len(text) < 60 else text[:57] + "...", type(e).__name__))
        a, b = res
        def eqq(x, y):
            # parsed quantities are compared field by field: Quantity.__eq__ expands prefixes (10**(3*10**400) for "km^99..9"), which is not parsing
            if isinstance(x, measured.Quantity) and isinstance(y, measured.Quantity):
                return x.unit is y.unit and type(x.magnitude) is type(y.magnitude) and (x.magnitude == y.magnitude or x.magnitude != x.magnitude)
            return x == y
        same = a[0] == b[0] and (a[1] is b[1] if a[0] == "ok" and kind is measured.Unit else eqq(a[1], b[1]) if a[0] == "ok" else a[1] == b[1])
        if not same: bad.append("nondeterministic: %r parsed twice gives %r and %r" % (text, a, b))
        outs.append(a)
    after = (dict(U._by_name), dict(U._by_symbol), dict(measured.Prefix._by_name), dict(measured.Prefix._by_symbol), dict(measured.Dimension._by_name))
    if after != before: bad.append("registries: parsing %r changed the registered names/symbols" % (text,))
    return bad
'''
exec(CHECK)


def run(tier, seed):
    ns = namespace()
    import measured
    units, prefixes, _ = pools(ns)
    rng = seed_rng(seed, "C17")
    syms = [s for u in units for s in ns[u].symbols] + [ns[p].symbol + ns[u].symbol for p in prefixes[:8] for u in units[:10] if ns[u].symbol and ns[p].symbol]
    alphabet = list("abcmskgKNJ1°.-()ΩμÅ☉ₐₜ⁻⁰¹²³⁹^*/⋅ +-0123456789eE.") + ["  ", "\t", "\n", "∞", "½", "𝟙", "e5", "--", "^^", "//", "nan", "inf"]
    n = 600 if tier == "quick" else 100000
    failures, samples, evals, distinct = [], [], 0, set()

    def valid():
        terms = []
        for _ in range(rng.choice([1, 2, 3])):
            s = rng.choice(syms)
            e = rng.choice(["", "", "^2", "^-1", "²", "⁻³", "^+3", "^0", "¹⁰"])
            terms.append(s + e)
        sep = rng.choice(["*", "⋅", " ", " * "])
        t = sep.join(terms)
        if rng.random() < 0.3:
            t += rng.choice(["/", " / "]) + rng.choice(syms) + rng.choice(["", "^2", "²"])
        if rng.random() < 0.04:
            t += rng.choice([" ", "⋅", "*"]) + rng.choice(["KiB", "kB", "km", "Mib", "ms"]) + "^" + rng.choice(["", "-"]) + "9" * rng.choice([20, 310, 400])
        if rng.random() < 0.5:
            t = rng.choice(["5", "-3", "2.5", "1e3", "+7", "1e400", "-0.0", ".5", "5.", "1E-3", "007"]) + rng.choice([" ", "", "  "]) + t
        return t

    def mutate(t):
        t = list(t)
        for _ in range(rng.choice([1, 1, 2, 3])):
            op = rng.choice(["del", "ins", "swap", "dup"])
            i = rng.randrange(len(t) + 1) if t else 0
            if op == "del" and t:
                del t[min(i, len(t) - 1)]
            elif op == "ins":
                t.insert(i, rng.choice(alphabet))
            elif op == "swap" and len(t) > 1:
                j = min(i, len(t) - 2)
                t[j], t[j + 1] = t[j + 1], t[j]
            elif op == "dup" and t:
                j = min(i, len(t) - 1)
                t.insert(j, t[j])
        return "".join(t)

    special = ["", " ", "m^" + "9" * 5000, "m" + "⁹" * 5000, "1" * 5000 + " m", "m^99999999", "m" * 3000, "m^-0", "1 1", "1", "°", "(", "m/", "/m", "m//s", "m^", "^2", "5", "5 ", "nan m", "inf m",
               "1e999 m", "-1e999 m", "0x10 m", "１ m", "m²", "m⁲", "m ^2", "m^ 2", "m⁻", "⁻¹", "m²³", "m^2^3", "m²^3", "\x00", "m\x00", "a" * 100000,
               # exponents beyond the float range on units whose prefixes have different bases (rescaled through float logarithms)
               "KiB^" + "9" * 400 + " km", "kB^" + "9" * 400, "km/KiB^" + "9" * 400, "5 kB^" + "9" * 400, "kB" + "⁹" * 400, "km^" + "9" * 400 + " KiB",
               "KiB^-" + "9" * 400 + "/km", "km^" + "9" * 400, "Kib^999 km", "MiB^" + "1" + "0" * 310 + "⋅ms"]
    # the window in which int * float does not overflow yet but the product is already infinite
    special += [u + "^" + sgn + "1" + "0" * k for u in ("kB", "KiB⋅km", "Mib ms") for sgn in ("", "-") for k in (300, 305, 306, 307, 308, 309)]
    special += ["5 kB^2" + "0" * 307, "kB" + "¹" + "⁰" * 308]
    cases = list(special)
    while len(cases) < n:
        r = rng.random()
        cases.append(valid() if r < 0.4 else mutate(valid()) if r < 0.8 else "".join(rng.choice(alphabet) for _ in range(rng.randrange(0, 12))))
    for text in cases:
        evals += 1
        distinct.add(text)
        try:
            bad = c17_check(text, ns)
        except RecursionError:
            bad = ["exception: RecursionError escaped for an input of length %d" % len(text)]
        for msg in bad:
            key = msg.split(":")[0]
            if key == "exception" and "ValueError" in msg and any(len(tok) > 4300 for tok in text.replace("^", " ").split()):
                key = "known:int-4300-digit-limit"
            if sum(1 for f in failures if f["key"] == key) < 2:
                failures.append({"key": key, "desc": msg[:300], "text": text})
        if len(samples) < 6 and len(text) < 40:
            samples.append(text)
    return {"evaluations": evals * 4, "distinct": len(distinct), "failures": failures[:10], "samples": samples,
            "rule": "%d hand-picked edge inputs (empty, 5000-digit exponents, unicode digits, NUL, 100k characters), grammar-generated valid inputs over registered symbols, "
                    "1-3 token-level mutations of them, random strings over the grammar alphabet; each parsed twice with both entry points; registries "
                    "snapshotted; distinct = distinct strings" % len(special), "bound": "%d strings" % n}


def replay_body(f):
    return CHECK + "bad = c17_check(%r, ns)\nprint(bad)\nsys.exit(1 if bad else 0)\n" % (f["text"],)
