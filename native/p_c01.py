"""C01 stand-in (bounded): random histories of public operations; after every step every
unit in the intern table must report the product of its factors' dimensions."""
from .common import namespace, pools, seed_rng, shape_zoo

CHECK = '''
def c01_violations(since=0):
    """since: only the units interned after the first `since` ones (the table is insertion ordered and only grows)"""
    import measured, itertools
    bad = []
    for u in list(itertools.islice(measured.Unit._known.values(), since, None)):
        d = measured.Number
        for b, e in u.factors.items():
            d = d * (b.dimension ** e) if b is not u else d * u.dimension
        if u.dimension is not d:
            bad.append((str(u), str(u.dimension), str(d)))
    return bad
'''
exec(CHECK)


def compound(rng, units, prefixes):
    k = rng.choice([1, 2, 2, 3, 3, 4])
    parts = []
    for _ in range(k):
        u = rng.choice(units)
        if rng.random() < 0.2:
            u = "(%s*%s)" % (rng.choice(prefixes), u)
        e = rng.choice([-3, -2, -2, -1, -1, 1, 1, 2, 2, 3])
        parts.append(u if e == 1 else "%s**%d" % (u, e))
    return "(" + " * ".join(parts) + ")"


ZOO = []


def gen_step(rng, units, prefixes, nvars):
    def operand():
        r = rng.random()
        if nvars and r < 0.35:
            return "v%d" % rng.randrange(nvars)
        if r < 0.55 and ZOO:
            return rng.choice(ZOO)
        if r < 0.85:
            return compound(rng, units, prefixes)
        return rng.choice(units)
    k = rng.choice(["mul", "div", "pow", "root", "root", "ratio", "ratio", "fmt", "fmt", "str", "html", "parse", "json", "pickle", "mulq", "conv", "pretty",
                    "scaled-left", "scaled-right", "negroot"])
    pu = rng.choice(units)
    a, b = operand(), operand()
    n = rng.choice([-3, -2, -1, 2, 3])
    return {
        "mul": "%s * %s" % (a, b), "div": "%s / %s" % (a, b), "pow": "%s ** %d" % (a, n),
        "root": "_try(lambda: (%s).root(%d), %s)" % (a, abs(n), a),
        "ratio": "(%s).as_ratio()[%d]" % (a, rng.randrange(2)),
        "fmt": "_eff(format(%s, '/'), %s)" % (a, a), "str": "_eff(str(%s), %s)" % (a, a),
        "html": "_eff((%s)._repr_html_(), %s)" % (a, a),
        "parse": "_try(lambda: Unit.parse(str(%s)), %s)" % (a, a),
        "json": "_try(lambda: _json(%s), %s)" % (a, a),
        "pickle": "_pickle(%s)" % a,
        "mulq": "((2 * %s) * (3 * %s)).unit" % (a, b),
        "conv": "_eff(_try(lambda: (1 * %s).in_unit(%s), None), %s)" % (a, b, a),
        "pretty": "_eff(_pretty(%s), %s)" % (a, a),
        # a prefixed dimensionless unit (what is left of (p*u)/u) times a unit, on either side: the product may be a never-seen unit
        "scaled-left": "((%s*%s) / %s) * %s" % (rng.choice(prefixes), pu, pu, a),
        "scaled-right": "%s * ((%s*%s) / %s)" % (a, rng.choice(prefixes), pu, pu),
        "negroot": "_try(lambda: ((%s)**%d).root(%d), %s)" % (a, -abs(n), -abs(n), a),
    }[k]


HELPERS = '''
import json as _j, pickle as _p
from measured import Dimension, Unit, One
from measured.json import MeasuredJSONEncoder, MeasuredJSONDecoder
def _try(f, dflt):
    try:
        return f()
    except Exception:
        return dflt
def _eff(_ignored, u):
    return u
def _json(u):
    return _j.loads(_j.dumps(u, cls=MeasuredJSONEncoder), cls=MeasuredJSONDecoder)
def _pickle(u):
    return _p.loads(_p.dumps(u))
def _pretty(u):
    try:
        from IPython.lib.pretty import pretty
        return pretty(u)
    except ImportError:
        return repr(u)
'''


def run(tier, seed):
    ns = namespace()
    exec(HELPERS, ns)
    units, prefixes, _ = pools(ns)
    ZOO[:] = shape_zoo(ns)
    rng = seed_rng(seed, "C01")
    steps_total = 300 if tier == "quick" else 20000
    failures, samples, evals, distinct = [], [], 0, set()
    pre = c01_violations()
    for u, got, want in pre[:3]:
        failures.append({"key": "import:%s" % u, "desc": "after import: %s has dimension %s, factors give %s" % (u, got, want),
                         "steps": []})
    hist = []
    import measured as _m0
    checked = len(_m0.Unit._known)
    while evals < steps_total and len(failures) < 3:
        nv = len(hist)
        src = gen_step(rng, units, prefixes, nv)
        try:
            val = eval(src, ns)
        except Exception as e:  # operations may legitimately fail (FractionalDimensionError...)
            evals += 1
            continue
        import measured
        if not isinstance(val, measured.Unit):
            evals += 1
            continue
        ns["v%d" % nv] = val
        hist.append(src)
        evals += 1
        distinct.add(src.split("(")[0][:20] + str(val))
        # every step: the units interned by this step; every 40th step and at the end: the whole table (a later operation
        # must not change what an earlier unit reports)
        import measured as _m
        full = evals % 40 == 0 or evals >= steps_total
        bad = c01_violations(0 if full else checked)
        checked = len(_m.Unit._known)
        if bad:
            u, got, want = bad[0]
            failures.append({"key": "history:%s" % u, "desc": "%s has dimension %s but its factors give %s" % (u, got, want),
                             "steps": list(hist)})
            break
        if len(hist) >= 25:  # start a fresh history (variables), the intern table keeps growing: that is the point
            hist = []
            for k in [k for k in ns if k.startswith("v") and k[1:].isdigit()]:
                del ns[k]
        if len(samples) < 5:
            samples.append(src)
    if not failures:
        for u, got, want in c01_violations()[:1]:
            failures.append({"key": "history:%s" % u, "desc": "%s has dimension %s but its factors give %s" % (u, got, want), "steps": list(hist)})
    if not failures:
        # last phase: a new fundamental dimension is defined at run time (the documented extension point); every unit interned
        # before must still report the product of its factors' dimensions, and so must units built afterwards
        tail = ["Meter**3 / Second**3", "Dimension.define('c01dim%d', 'c01d%d')" % (seed, seed), "Unit.define(Dimension._by_name['c01dim%d'], 'c01unit%d', 'c01u%d')" % (seed, seed, seed),
                "Meter**3 / Second**3 * Unit._by_name['c01unit%d']" % seed, "(Kilo*Meter)**2 / Hour", "(Meter**3 / Second**3).as_ratio()[1]"]
        import measured as _m2
        ns.setdefault("Dimension", _m2.Dimension)
        ns.setdefault("Unit", _m2.Unit)
        done = []
        try:
            for src in tail:
                done.append(src)
                eval(src, ns)
                evals += 1
            bad = c01_violations()
        except Exception as e:
            bad = [("<%s>" % src, "raised", "%s: %s" % (type(e).__name__, e))]
        if bad:
            u, got, want = bad[0]
            failures.append({"key": "define-dimension:%s" % u, "desc": "after Dimension.define at run time: %s has dimension %s but its factors give %s" % (u, got, want),
                             "steps": ["_try(lambda: %s, One)" % s_ if "define" not in s_ else "_eff(%s, One)" % s_ for s_ in done]})
    return {"evaluations": evals, "distinct": len(distinct), "failures": failures, "samples": samples,
            "rule": "random histories (<=25 steps each, one growing intern table) of * / ** root as_ratio format str mathml parse json pickle "
                    "quantity-mul convert over %d named units x %d prefixes; distinct = distinct (operation, resulting unit)" % (len(units), len(prefixes)),
            "bound": "%d steps" % steps_total}


def replay_body(failure):
    body = HELPERS + CHECK
    for i, s in enumerate(failure["steps"]):
        body += "ns['v%d'] = eval(%r, ns)\n" % (i, s)
    body = body.replace("\ndef ", "\ndef ")
    body += "exec(%r, ns)\n" % HELPERS if False else ""
    body += "bad = c01_violations()\nprint(bad[:3])\nsys.exit(1 if bad else 0)\n"
    return body
