"""Exact-rational size oracle (independent of the conversion planner).

The equivalences declared by the shipped modules are intercepted while the modules are
imported (recording wrappers around conversions.equate / translate, no edit of /repo).
Every declaration  m_a * U_a == m_b * U_b  is read as an equation between monomials over the
*anchor* base units (those never defined in terms of others); base-unit sizes are solved
incrementally in exact arithmetic (Fraction coefficients, integer anchor exponents).
A declaration all of whose units are already sized is a redundant edge: its disagreement with
the sizes implied by earlier declarations is the C09 residual."""
import importlib
import sys
from fractions import Fraction

DECLS = []  # (kind, module, lineno, a_quantity, b_quantity) in declaration order
_installed = False


def install():
    """must run before the unit modules are imported"""
    global _installed
    if _installed:
        return
    import measured
    from measured import conversions
    real_equate, real_translate = conversions.equate, conversions.translate

    def where():
        f = sys._getframe(2)
        while f and (f.f_globals.get("__name__") in ("measured", "measured.conversions", "native.oracle")):
            f = f.f_back
        return (f.f_globals.get("__name__", "?"), f.f_lineno) if f else ("?", 0)

    def equate(a, b):
        DECLS.append(("equate",) + where() + (a, b))
        return real_equate(a, b)

    def translate(scale, zero):
        DECLS.append(("translate",) + where() + (scale, zero))
        return real_translate(scale, zero)

    conversions.equate, conversions.translate = equate, translate
    _installed = True


class Mono:
    """coef * prod(anchor**exp)"""

    def __init__(self, coef=Fraction(1), exps=None):
        self.coef, self.exps = Fraction(coef), dict(exps or {})

    def __mul__(self, o):
        e = dict(self.exps)
        for k, v in o.exps.items():
            e[k] = e.get(k, 0) + v
            if e[k] == 0:
                del e[k]
        return Mono(self.coef * o.coef, e)

    def __pow__(self, n):
        if n >= 0:
            c = self.coef ** n
        else:
            c = Fraction(1) / (self.coef ** (-n))
        return Mono(c, {k: v * n for k, v in self.exps.items() if v * n != 0})

    def same_anchors(self, o):
        return self.exps == o.exps

    def __repr__(self):
        return "%s*%s" % (self.coef, self.exps)


def frac(x):
    from decimal import Decimal
    if isinstance(x, (int, Fraction)):
        return Fraction(x)
    if isinstance(x, Decimal):
        return Fraction(x)
    return Fraction(repr(float(x)))  # the decimal numeral the source text carries


def prefix_value(p):
    if p.base == 0:
        return Fraction(1)
    e = p.exponent
    if e != int(e):
        return None  # base-changed float exponent: not exact
    e = int(e)
    return Fraction(p.base) ** e if e >= 0 else Fraction(1) / Fraction(p.base) ** (-e)


class Sizes:
    def __init__(self):
        self.size = {}  # base unit -> Mono
        self.redundant = []  # (module, line, residual Fraction relative, degree, text)
        self.unresolved = []
        self.scales = {}  # scale unit -> (degree unit, zero magnitude Fraction)

    def unit_mono(self, unit, define_anchor=False):
        """Mono of a (compound, prefixed) unit, or None if some factor is not sized yet"""
        pv = prefix_value(unit.prefix)
        if pv is None:
            return None
        m = Mono(pv)
        for b, e in unit.factors.items():
            if b not in self.size:
                return None
            m = m * (self.size[b] ** e)
        return m

    def unknowns(self, unit):
        return [(b, e) for b, e in unit.factors.items() if b not in self.size]

    def solve(self, decls):
        import measured
        self.size[measured.One] = Mono()
        pending = list(decls)
        progress = True
        while pending and progress:
            progress = False
            rest = []
            for d in pending:
                if self._try(d):
                    progress = True
                else:
                    rest.append(d)
            if not progress and rest:
                # make the first unknown unit of the first pending declaration an anchor
                kind, mod, line, a, b = rest[0]
                ua = a.unit if kind == "equate" else a
                ub = b.unit
                unk = self.unknowns(ub) or self.unknowns(ua)
                if unk:
                    self.size[unk[0][0]] = Mono(1, {unk[0][0]: 1})
                    progress = True
            pending = rest
        self.unresolved = pending
        return self

    def _try(self, d):
        kind, mod, line, a, b = d
        if kind == "translate":
            scale, zero = a, b
            m = self.unit_mono(zero.unit)
            if m is None:
                return False
            self.size[scale] = m
            self.scales[scale] = (zero.unit, frac(zero.magnitude))
            return True
        ua, ub = a.unit, b.unit
        unk = self.unknowns(ua) + self.unknowns(ub)
        names = {id(x[0]) for x in unk}
        if len(names) == 0:
            ma, mb = self.unit_mono(ua), self.unit_mono(ub)
            if ma is None or mb is None:
                return True  # inexact prefix: skip
            lhs, rhs = Mono(frac(a.magnitude)) * ma, Mono(frac(b.magnitude)) * mb
            degree = max(1, sum(abs(e) for e in ua.factors.values()), sum(abs(e) for e in ub.factors.values()))
            if not lhs.same_anchors(rhs):
                self.redundant.append((mod, line, None, degree, "%s == %s: different anchor monomials %r vs %r" % (a, b, lhs.exps, rhs.exps)))
            else:
                res = abs(lhs.coef / rhs.coef - 1) if rhs.coef != 0 else None
                self.redundant.append((mod, line, res, degree, "%s == %s" % (a, b)))
            return True
        if len(names) == 1:
            x, _ = unk[0]
            ea, eb = ua.factors.get(x, 0), ub.factors.get(x, 0)
            e = ea - eb  # x**e * (rest_a) * m_a == rest_b * m_b
            if e not in (1, -1):
                return False
            rest_a = Mono(frac(a.magnitude) * (prefix_value(ua.prefix) or 1))
            for bb, ee in ua.factors.items():
                if bb is not x:
                    rest_a = rest_a * (self.size[bb] ** ee)
            rest_b = Mono(frac(b.magnitude) * (prefix_value(ub.prefix) or 1))
            for bb, ee in ub.factors.items():
                if bb is not x:
                    rest_b = rest_b * (self.size[bb] ** ee)
            val = rest_b * (rest_a ** -1)  # x**e == rest_b / rest_a
            self.size[x] = val if e == 1 else val ** -1
            return True
        return False


_SIZES = None


def sizes():
    """import every shipped module with the recorders installed and solve the sizes"""
    global _SIZES
    if _SIZES is None:
        install()
        from .common import MODULES
        for m in MODULES:
            importlib.import_module("measured." + m)
        _SIZES = Sizes().solve(DECLS)
    return _SIZES


def expected_ratio(src_unit, dst_unit):
    """size(src)/size(dst) as a Fraction, or None when the oracle cannot express it exactly"""
    S = sizes()
    a, b = S.unit_mono(src_unit), S.unit_mono(dst_unit)
    if a is None or b is None or not a.same_anchors(b):
        return None
    return a.coef / b.coef
