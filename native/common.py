"""Shared helpers for the native (CPython, real code) stand-ins and replays.
Runs under /venv/bin/python with the editable install of /repo (or PYTHONPATH=<scratch>/src)."""
import importlib
import os
import random
import sys

MODULES = ["si", "us", "avoirdupois", "troy", "energy", "astronomical", "natural", "metric", "iec", "iso", "eu", "fff",
           "apocrypha", "computing", "physics", "geometry", "acoustics", "electronics", "music"]


def namespace():
    """name -> object for every public module attribute of the shipped modules that is a
    Unit / Prefix / Dimension / Logarithm...; names are the Python identifiers."""
    import measured
    ns = {"measured": measured}
    for n in dir(measured):
        if not n.startswith("_"):
            ns[n] = getattr(measured, n)
    for m in MODULES:
        try:
            mod = importlib.import_module("measured." + m)
        except Exception:
            continue
        ns[m] = mod
        for n in dir(mod):
            if not n.startswith("_") and n not in ns:
                ns[n] = getattr(mod, n)
    from decimal import Decimal
    from fractions import Fraction
    ns["Decimal"], ns["Fraction"] = Decimal, Fraction
    return ns


def pools(ns):
    import measured
    units = sorted(n for n, o in ns.items() if isinstance(o, measured.Unit))
    prefixes = sorted(n for n, o in ns.items() if isinstance(o, measured.Prefix) and n != "IdentityPrefix")
    dims = sorted(n for n, o in ns.items() if isinstance(o, measured.Dimension))
    return units, prefixes, dims


def seed_rng(seed, salt=""):
    return random.Random("%s/%s" % (seed, salt))


REPLAY_HEADER = '''#!/venv/bin/python
"""Replay for property {prop}
failed obligations (verifier): {obligations}
native check: {what}
Exit status 1 when the real code violates the property."""
import sys
sys.path.insert(0, "/verif")
from native.common import namespace
ns = namespace()
'''


def write_replay(path, prop, obligations, what, body):
    os.makedirs(os.path.dirname(path), exist_ok=True)
    with open(path, "w") as f:
        f.write(REPLAY_HEADER.format(prop=prop, obligations=obligations, what=what))
        f.write(body)
    os.chmod(path, 0o755)


def shape_zoo(ns):
    """Unit expressions with the shapes that special cases tend to get wrong; every stand-in mixes
    them into its random inputs (sources are evaluated lazily by the caller)."""
    z = [
        "One", "(Kilo*One)", "(Kibi*One)", "((Kilo*Meter)/Meter)", "((Mega*Second)**2/Second**2)", "(Meter/Meter)",
        "Meter", "(Kilo*Meter)", "(Milli*Meter)**2", "Meter**-1", "(Kilo*Meter)**-2", "Meter**3",
        "Kilogram", "(Kilo*Kilogram)", "Gram", "(Milli*Gram)**-1",
        "Newton", "(Kilo*Newton)", "Joule", "Watt", "(Newton*Meter)", "(Joule/Second)", "(Kilogram*Meter**2/Second**3)",
        "Radian", "Degree", "Steradian", "(Radian**-1)", "(Degree*Meter)",
        "Hertz", "(Kilo*Hertz)", "Second**-1", "Becquerel",
        "Byte", "(Kibi*Byte)", "(Kilo*Byte)", "Bit", "(Kilo*Kibi*Bit)", "(Mebi*Bit)/Second",
        "Foot", "Inch", "(Foot*PoundForce/Second)", "Horsepower", "Acre", "(Acre*Foot)", "Liter", "(Milli*Liter)",
        "Hour", "(Meter/Second)", "(Kilo*Meter/Hour)", "Knot", "(Meter/Second**2)", "GForce",
        "Ohm", "Volt", "(Milli*Volt)", "Farad", "(Micro*Farad)", "Siemens",
        "Mole", "Candela", "Lumen", "Lux", "Katal",
    ]
    # every shape is handed out as ONE parenthesised atom: callers splice them into larger expressions ("x / <shape>", "<shape>**2")
    return ["(%s)" % s for s in z if _evaluates(s, ns)]


def _evaluates(src, ns):
    try:
        eval(src, ns)
        return True
    except Exception:
        return False
