"""Shared helpers for the native (CPython, real code) stand-ins and replays.
Runs under /venv/bin/python with the editable install of /repo (or PYTHONPATH=<scratch>/src)."""
import importlib
import os
import random
import sys

MODULES = ["si", "us", "avoirdupois", "troy", "energy", "astronomical", "natural", "metric", "iec", "iso", "eu", "fff",
           "apocrypha", "computing", "physics", "geometry", "acoustics", "electronics", "music"]


def namespace():
    """name -> object for every public module attribute of the shipped modules that is a
    Unit / Prefix / Dimension / Logarithm...; names are the Python identifiers."""
    import measured
    ns = {"measured": measured}
    for n in dir(measured):
        if not n.startswith("_"):
            ns[n] = getattr(measured, n)
    for m in MODULES:
        try:
            mod = importlib.import_module("measured." + m)
        except Exception:
            continue
        ns[m] = mod
        for n in dir(mod):
            if not n.startswith("_") and n not in ns:
                ns[n] = getattr(mod, n)
    from decimal import Decimal
    from fractions import Fraction
    ns["Decimal"], ns["Fraction"] = Decimal, Fraction
    return ns


def pools(ns):
    import measured
    units = sorted(n for n, o in ns.items() if isinstance(o, measured.Unit))
    prefixes = sorted(n for n, o in ns.items() if isinstance(o, measured.Prefix) and n != "IdentityPrefix")
    dims = sorted(n for n, o in ns.items() if isinstance(o, measured.Dimension))
    return units, prefixes, dims


def seed_rng(seed, salt=""):
    return random.Random("%s/%s" % (seed, salt))


REPLAY_HEADER = '''#!/venv/bin/python
"""Replay for property {prop}
failed obligations (verifier): {obligations}
native check: {what}
Exit status 1 when the real code violates the property."""
import sys
sys.path.insert(0, "/verif")
from native.common import namespace
ns = namespace()
'''


def write_replay(path, prop, obligations, what, body):
    os.makedirs(os.path.dirname(path), exist_ok=True)
    with open(path, "w") as f:
        f.write(REPLAY_HEADER.format(prop=prop, obligations=obligations, what=what))
        f.write(body)
    os.chmod(path, 0o755)
