"""C04 stand-in (bounded): a conversion that returns a value returns the asked unit and the
magnitude  m * size(src)/size(dst)  with sizes from the exact-rational oracle."""
from fractions import Fraction
from .common import namespace, seed_rng

CHECK = '''
def c04_check(src, dst, mag, ns):
    """returns (status, detail): ok | notfound | WRONG | ERROR"""
    import measured
    from measured.conversions import ConversionNotFound
    from native import oracle
    a, b = eval(src, ns), eval(dst, ns)
    want = oracle.expected_ratio(a, b)
    try:
        r = (mag * a).in_unit(b)
    except ConversionNotFound:
        return "notfound", ""
    except Exception as e:
        return "ERROR", "%s: %s" % (type(e).__name__, e)
    if r.unit is not b:
        return "WRONG", "result unit %r is not the asked unit" % (r.unit,)
    if want is None:
        return "ok", "no oracle value"
    degree = max(1, sum(abs(e) for e in a.factors.values()), sum(abs(e) for e in b.factors.values()))
    try:
        exp = float(want) * mag
    except OverflowError:
        return "ok", "outside the float range"
    if exp != 0 and not (1e-290 < abs(exp) < 1e290):
        return "ok", "outside the normal float range"
    rel = abs(float(r.magnitude) / exp - 1) if exp else abs(float(r.magnitude))
    if rel > 1e-5 * degree:
        return "WRONG", "got %r, oracle %r (relative error %.3g, tolerance %.1g)" % (r.magnitude, exp, rel, 1e-5 * degree)
    return "ok", ""
'''
exec(CHECK)


def astronomical(ua, ub):
    """some factor of the pair is more than 1e60 away from its SI size raised to its power: the float
    arithmetic of the conversion over/underflows in intermediate steps, which is not what C04-C06 are about"""
    import math
    from native import oracle
    S = oracle.sizes()
    for u in (ua, ub):
        for f, e in u.factors.items():
            m = S.size.get(f)
            if m is not None and m.coef > 0:
                try:
                    lg = abs((math.log10(m.coef.numerator) - math.log10(m.coef.denominator)) * e)
                except (ValueError, OverflowError):
                    lg = 999
                if lg > 60:
                    return True
    return False


def classify(a, b, st, detail, ns):
    """key of a failure; the two recorded finding classes get their own keys"""
    import measured
    if st == "ERROR":
        return "error:" + detail.split(":")[0]
    ua, ub = eval(a, ns), eval(b, ns)
    if astronomical(ua, ub):
        return "ignored:float-range"
    dimless = {f for u in (ua, ub) for f, e in u.factors.items() if f.dimension is measured.Number and f is not measured.One}
    neg_dimless = any(f.dimension is measured.Number and e < 0 and f is not measured.One for u in (ua, ub) for f, e in u.factors.items())
    if neg_dimless or len(dimless) >= 2:
        # units of dimension Number are all filed under one key by the planner: which one stands in a
        # denominator, and which kind (angle, solid angle, ...) it is, is lost
        return "wrong-value:dimensionless-units"
    # the ton of refrigeration is declared twice (12000 BTU/h with the thermochemical BTU, and 3.51685 kW):
    # the two routes differ by 6.68e-4 per power of the unit
    tr = sum(abs(e) for u in (ua, ub) for f, e in u.factors.items() if f.name in ("ton of refrigeration", "boiler horsepower"))
    if tr and "relative error" in detail:
        rel = float(detail.split("relative error ")[1].split(",")[0])
        if rel <= 6.8e-4 * tr * 1.02:
            return "wrong-value:BTU-IT-vs-thermochemical"
    return "wrong-value"


def run(tier, seed):
    from . import oracle
    oracle.install()
    ns = namespace()
    from .convgen import Gen
    rng = seed_rng(seed, "C04")
    g = Gen(ns, rng)
    n = 1500 if tier == "quick" else 100000
    failures, samples, evals, distinct, stats = [], [], 0, set(), {}
    while evals < n and len([f for f in failures if f['key'] in ('wrong-value',) or f['key'].startswith('error')]) < 4:
        a, b = g.pair()
        mag = rng.choice([1, 2.5, 7, 0.125])
        st, detail = c04_check(a, b, mag, ns)
        evals += 1
        stats[st] = stats.get(st, 0) + 1
        distinct.add((a, b))
        if st in ("WRONG", "ERROR"):
            key = classify(a, b, st, detail, ns)
            stats[key] = stats.get(key, 0) + 1
            if key.startswith("ignored:"):
                continue
            if sum(1 for f in failures if f["key"] == key) < 2:
                failures.append({"key": key, "desc": "(%r * %s).in_unit(%s): %s" % (mag, a, b, detail), "src": a, "dst": b, "mag": mag})
        if len(samples) < 5:
            samples.append("(%r * %s).in_unit(%s) -> %s" % (mag, a, b, st))
    return {"evaluations": evals, "distinct": len(distinct), "failures": failures, "samples": samples,
            "rule": "random equal-dimension pairs (<=3 factors per side, |exponent|<=3, SI prefixes, named-unit replacements) over %d offset-free units; "
                    "oracle = exact-rational sizes solved from the %d intercepted declarations; outcomes %r; distinct = distinct (source, target)"
                    % (len(g.units), len(oracle.DECLS), stats), "bound": "%d conversions" % n}


def replay_body(f):
    return ("from native import oracle\noracle.install()\nfrom native.common import namespace\nns = namespace()\n" + CHECK +
            "st, detail = c04_check(%r, %r, %r, ns)\nprint(st, detail)\nsys.exit(1 if st in ('WRONG', 'ERROR') else 0)\n" % (f["src"], f["dst"], f["mag"]))
