"""Generator of (source unit expression, target unit expression) pairs of equal dimension from
the C04 space: products of integer powers (|e| <= 3, <= 3 factors per side) of registered
offset-free named units with registered prefixes."""
from .common import namespace, pools, shape_zoo


class Gen:
    def __init__(self, ns, rng):
        import measured
        self.ns, self.rng = ns, rng
        units, prefixes, _ = pools(ns)
        from . import oracle
        S = oracle.sizes()
        self.scales = set(S.scales)
        self.units = [u for u in units if ns[u] not in self.scales and ns[u].dimension is not measured.Temperature
                      and ns[u] is not measured.One and ns[u].prefix.base in (0, 10)]
        self.prefixes = [p for p in prefixes if ns[p].base == 10]
        self.prefixes2 = [p for p in prefixes if ns[p].base == 2]
        self.bydim = {}
        for u in self.units:
            self.bydim.setdefault(ns[u].dimension, []).append(u)
        # zoo shapes that involve no temperature scale, grouped by dimension (pairs of one group are legitimate conversion requests)
        self.zoo = {}
        for s in shape_zoo(ns):
            try:
                u = eval(s, ns)
                if all(f not in self.scales and f.dimension is not measured.Temperature for f in u.factors) and u.prefix.base in (0, 10):
                    self.zoo.setdefault(u.dimension, []).append(s)
            except Exception:
                pass
        self.zoo = {d: v for d, v in self.zoo.items() if len(v) > 1}

    def factor(self, u, e, prefix=True):
        if prefix and self.rng.random() < 0.3:
            u = "(%s*%s)" % (self.rng.choice(self.prefixes), u)
        return u if e == 1 else "%s**%d" % (u, e)

    def third(self, a):
        """another spelling of the dimension of `a`, for route checks: every named unit replaced by one of its dimension (prefixed now and
        then), or `a` itself under a prefix (which forces the factor-by-factor plan instead of a direct path)"""
        rng = self.rng
        import re
        if rng.random() < 0.4:
            return "(%s*%s)" % (rng.choice(self.prefixes), a)
        def swap(m):
            name = m.group(0)
            u = self.ns.get(name)
            if name in self.units and rng.random() < 0.8:
                return rng.choice(self.bydim[u.dimension])
            return name
        return re.sub(r"[A-Za-z_][A-Za-z_0-9]*", swap, a)

    def pair(self):
        rng = self.rng
        if self.zoo and rng.random() < 0.15:
            d = rng.choice(sorted(self.zoo, key=str))
            a, b = rng.sample(self.zoo[d], 2)
            return a, b
        if self.prefixes2 and rng.random() < 0.08:
            # one unit under a binary (IEC) and a decimal (SI) prefix: the two prefixes share no base
            u = rng.choice([x for x in self.units if self.ns[x].prefix.base == 0] or self.units)
            e = rng.choice([1, 1, 1, 2, -1])
            a = self.factor("(%s*%s)" % (rng.choice(self.prefixes2), u), e, prefix=False)
            b = self.factor("(%s*%s)" % (rng.choice(self.prefixes), u), e, prefix=False) if rng.random() < 0.8 else self.factor(u, e, prefix=False)
            return (a, b) if rng.random() < 0.5 else (b, a)
        if rng.random() < 0.06:
            # the same two named units on both sides with the exponents distributed differently (m**2/ft -> ft**2/m)
            d = rng.choice(sorted((d for d, us in self.bydim.items() if len(us) > 1), key=str))
            u, v = rng.sample(self.bydim[d], 2)
            e1, e2 = rng.choice([(2, -1), (1, 1), (2, 1), (3, -2), (1, -2), (-1, -1)])
            a = "(%s * %s)" % (self.factor(u, e1), self.factor(v, e2))
            b = "(%s * %s)" % (self.factor(v, e1), self.factor(u, e2)) if rng.random() < 0.7 else "(%s * %s)" % (self.factor(u, e2), self.factor(v, e1))
            if eval(a, self.ns).dimension is eval(b, self.ns).dimension:
                return a, b
        if self.prefixes2 and rng.random() < 0.05:
            # data units: Byte is 2**3 Bit, so a decimal prefix on it (also a very small one) makes a prefix of mixed bases
            allp = [p for p in pools(self.ns)[1] if self.ns[p].base in (2, 10)]
            def data():
                t = "(%s*%s)" % (rng.choice(allp), rng.choice(["Bit", "Byte"])) if rng.random() < 0.8 else rng.choice(["Bit", "Byte"])
                return t
            a, b = data(), data()
            if rng.random() < 0.4:
                t1 = self.factor("Second", 1)
                a, b = "(%s / %s)" % (a, t1), "(%s / %s)" % (b, self.factor("Second", 1))
            elif rng.random() < 0.3:
                a, b = "(Second / %s)" % a, "(Second / %s)" % b
            if "Bit" in self.ns and "Byte" in self.ns:
                return a, b
        if rng.random() < 0.06:
            # the same power of two named units of one DERIVED dimension (L**2 -> gal**2, acre**2 -> ft**4 is the next category's job):
            # the path search reduces such pairs by the gcd of the dimension's exponents, which is larger than the power here
            ds = [d for d, us in self.bydim.items() if len(us) > 1 and sum(abs(x) for x in d.exponents) > 1]
            if ds:
                d = rng.choice(sorted(ds, key=str))
                u, v = rng.sample(self.bydim[d], 2)
                e = rng.choice([2, 2, 3, -2])
                return "(%s**%d)" % (u, e), "(%s**%d)" % (v, e)
        k = rng.choice([1, 1, 2, 2, 3])
        src, dst = [], []
        for _ in range(k):
            u = rng.choice(self.units)
            e = rng.choice([-3, -2, -1, -1, 1, 1, 1, 2, 3])
            v = rng.choice(self.bydim[self.ns[u].dimension])
            src.append(self.factor(u, e))
            dst.append(self.factor(v, e))
        a, b = "(" + " * ".join(src) + ")", "(" + " * ".join(dst) + ")"
        if rng.random() < 0.25:
            # a named unit of the same dimension on one side (exercises the factor-replacing planner)
            d = eval(a, self.ns).dimension
            if d in self.bydim:
                b = self.factor(rng.choice(self.bydim[d]), 1)
                if rng.random() < 0.5:
                    a, b = b, a
        return a, b
