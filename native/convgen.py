"""Generator of (source unit expression, target unit expression) pairs of equal dimension from
the C04 space: products of integer powers (|e| <= 3, <= 3 factors per side) of registered
offset-free named units with registered prefixes."""
from .common import namespace, pools, shape_zoo


class Gen:
    def __init__(self, ns, rng):
        import measured
        self.ns, self.rng = ns, rng
        units, prefixes, _ = pools(ns)
        from . import oracle
        S = oracle.sizes()
        self.scales = set(S.scales)
        self.units = [u for u in units if ns[u] not in self.scales and ns[u].dimension is not measured.Temperature
                      and ns[u] is not measured.One and ns[u].prefix.base in (0, 10)]
        self.prefixes = [p for p in prefixes if ns[p].base == 10]
        self.prefixes2 = [p for p in prefixes if ns[p].base == 2]
        self.bydim = {}
        for u in self.units:
            self.bydim.setdefault(ns[u].dimension, []).append(u)
        # zoo shapes that involve no temperature scale, grouped by dimension (pairs of one group are legitimate conversion requests)
        self.zoo = {}
        for s in shape_zoo(ns):
            try:
                u = eval(s, ns)
                if all(f not in self.scales and f.dimension is not measured.Temperature for f in u.factors) and u.prefix.base in (0, 10):
                    self.zoo.setdefault(u.dimension, []).append(s)
            except Exception:
                pass
        self.zoo = {d: v for d, v in self.zoo.items() if len(v) > 1}

    def factor(self, u, e, prefix=True):
        if prefix and self.rng.random() < 0.3:
            u = "(%s*%s)" % (self.rng.choice(self.prefixes), u)
        return u if e == 1 else "%s**%d" % (u, e)

    def pair(self):
        rng = self.rng
        if self.zoo and rng.random() < 0.15:
            d = rng.choice(sorted(self.zoo, key=str))
            a, b = rng.sample(self.zoo[d], 2)
            return a, b
        if self.prefixes2 and rng.random() < 0.08:
            # one unit under a binary (IEC) and a decimal (SI) prefix: the two prefixes share no base
            u = rng.choice([x for x in self.units if self.ns[x].prefix.base == 0] or self.units)
            e = rng.choice([1, 1, 1, 2, -1])
            a = self.factor("(%s*%s)" % (rng.choice(self.prefixes2), u), e, prefix=False)
            b = self.factor("(%s*%s)" % (rng.choice(self.prefixes), u), e, prefix=False) if rng.random() < 0.8 else self.factor(u, e, prefix=False)
            return (a, b) if rng.random() < 0.5 else (b, a)
        k = rng.choice([1, 1, 2, 2, 3])
        src, dst = [], []
        for _ in range(k):
            u = rng.choice(self.units)
            e = rng.choice([-3, -2, -1, -1, 1, 1, 1, 2, 3])
            v = rng.choice(self.bydim[self.ns[u].dimension])
            src.append(self.factor(u, e))
            dst.append(self.factor(v, e))
        a, b = "(" + " * ".join(src) + ")", "(" + " * ".join(dst) + ")"
        if rng.random() < 0.25:
            # a named unit of the same dimension on one side (exercises the factor-replacing planner)
            d = eval(a, self.ns).dimension
            if d in self.bydim:
                b = self.factor(rng.choice(self.bydim[d]), 1)
                if rng.random() < 0.5:
                    a, b = b, a
        return a, b
