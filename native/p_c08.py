"""C08 stand-in (bounded): interleavings of unit definitions, equivalence declarations and
queries give the same final answer as the same declarations followed by the final query alone
(computed in a separate process)."""
import json
import os
import subprocess
import sys
from .common import namespace, seed_rng

WORKER = r'''
import sys, json
sys.path.insert(0, %(root)r)
import measured.systems  # noqa
import measured
from measured.conversions import ConversionNotFound
from measured.si import Meter, Second, Gram, Joule, Newton, Hecto, Mega, Giga, Deci, Centi, Micro
ns = {"Meter": Meter, "Second": Second, "Gram": Gram, "Joule": Joule, "Newton": Newton, "Hecto": Hecto, "Mega": Mega, "Giga": Giga, "Deci": Deci, "Centi": Centi, "Micro": Micro}
dims = {"L": measured.Length, "T": measured.Time, "E": measured.Energy, "V": measured.Volume}
def run(script, queries_enabled):
    out = []
    for step in script:
        kind = step[0]
        if kind == "define":
            ns[step[1]] = measured.Unit.define(dims[step[2]], step[1], step[1])
        elif kind == "equate":
            ns[step[1]].equals(step[2] * eval(step[3], ns))
        elif kind == "query" and (queries_enabled or step[-1] == "final"):
            try:
                r = (step[1] * eval(step[2], ns)).in_unit(eval(step[3], ns)).magnitude
                res = "value:%%r" %% (r,)
            except ConversionNotFound:
                res = "notfound"
            except Exception as e:
                res = "raise:" + type(e).__name__
            if step[-1] == "final":
                out.append(res)
        elif kind == "compare" and queries_enabled:
            try:
                (1 * eval(step[1], ns)) == (1 * eval(step[2], ns))
                sorted([1 * eval(step[1], ns), 2 * eval(step[2], ns)])
            except Exception:
                pass
    return out
script = json.loads(sys.argv[1])
print(json.dumps(run(script, sys.argv[2] == "1")))
'''


# shipped prefixed units whose combined prefixes (10**4, 10**8, 10**-4, 10**-8) are not registered at import: whichever query builds such a
# prefix first (by a product, a power or a root) decides which object is interned
PREFIXED = [("(Mega*Meter)*(Hecto*Meter)", "Meter**2"), ("(Giga*Meter)*(Deci*Meter)", "Meter**2"), ("(Hecto*Meter)**2", "Meter**2"),
            ("(Micro*Meter)*(Centi*Meter)", "Meter**2"), ("(Centi*Meter)**2", "Meter**2"), ("(Hecto*Meter)**2", "(Mega*Meter)*(Hecto*Meter)")]


def gen_script(rng, tag, prefixed=False):
    names = ["%s_a" % tag, "%s_b" % tag, "%s_c" % tag, "%s_e" % tag]
    script = [("define", names[0], "L"), ("define", names[1], "L"), ("define", names[2], "T"), ("define", names[3], "E")]
    decls = [("equate", names[0], rng.choice([2, 3.5, 12]), "Meter"), ("equate", names[1], rng.choice([7, 0.25]), names[0]),
             ("equate", names[2], rng.choice([60, 0.001]), "Second"), ("equate", names[3], rng.choice([4.2, 1000]), "%s * Newton" % names[1])]
    rng.shuffle(decls)
    # a shape the planner converts in one direction only (cube-defined volumes two declarations apart)
    v = ["%s_v1" % tag, "%s_v2" % tag, "%s_v3" % tag]
    script += [("define", v[0], "V"), ("define", v[1], "V"), ("define", v[2], "V")]
    decls += [("equate", v[0], 2, "%s**3" % names[0]), ("equate", v[1], 5, "%s**3" % names[1]), ("equate", v[2], 7, v[1])]
    rng.shuffle(decls)
    pairs = [(v[0], v[2]), (v[2], v[0]), (v[0], v[1]), (v[1], v[0]), (names[0], "Meter"), (names[1], "Meter"), ("Meter", names[1]), ("%s / %s" % (names[1], names[2]), "Meter / Second"), (names[3], "Joule"),
             ("%s**2" % names[0], "%s**2" % names[1]), (names[3], "%s * Newton" % names[0])]
    steps = list(decls)
    if prefixed:
        pairs = PREFIXED
    # queries (successful and failing) interleaved at random positions, before and after the declarations they need
    for _ in range(rng.choice([3, 5, 7])):
        a, b = rng.choice(pairs)
        pos = rng.randrange(len(steps) + 1)
        steps.insert(pos, ("query", rng.choice([1, 2.5]), a, b, "mid") if rng.random() < 0.7 else ("compare", a, b))
    if prefixed:
        # the final answer is a panel: every prefixed pair (powers first, then products), with a magnitude whose float image is inexact
        mag = rng.choice([12345678901234567, 98765432109876543])
        panel = sorted(PREFIXED, key=lambda p: ("**" not in p[0], p))
        return script + steps + [("query", mag, a, b, "final") for a, b in panel]
    fa, fb = rng.choice(pairs)
    return script + steps + [("query", 3, fa, fb, "final")]


def run_script(script, with_queries):
    root = os.path.dirname(os.path.dirname(os.path.abspath(__file__)))
    p = subprocess.run([sys.executable, "-c", WORKER % {"root": root}, json.dumps(script), "1" if with_queries else "0"], capture_output=True, text=True)
    try:
        return json.loads(p.stdout.strip().splitlines()[-1])
    except Exception:
        return "harness-error:" + p.stderr[-200:]


def run(tier, seed):
    rng = seed_rng(seed, "C08")
    n = 12 if tier == "quick" else 600
    failures, samples, distinct = [], [], set()
    for i in range(n):
        script = gen_script(rng, "c08s%dn%d" % (seed, i), prefixed=(i % 2 == 1))
        a = run_script(script, True)
        b = run_script(script, False)
        again = run_script(script + [script[-1]], True)
        distinct.add(json.dumps(script[7:]))
        if a != b or not (isinstance(again, list) and again[:-1] == a and again[-1:] == a[-1:]):
            key = "history-dependent" if a != b else "repeat-differs"
            if sum(1 for f in failures if f["key"] == key) < 2:
                failures.append({"key": key, "desc": "final query gives %s after the interleaved history but %s in a fresh process with the same declarations (repeat: %s)" % (a, b, again),
                                 "script": script})
        if len(samples) < 3:
            samples.append([list(s) for s in script[7:]])
    return {"evaluations": 3 * n, "distinct": len(distinct), "failures": failures, "samples": samples,
            "rule": "random scripts (every second one querying shipped prefixed area units whose combined prefixes are not registered at import): 4 fresh units, 4 declarations in random order, 2-5 queries/comparisons interleaved at random positions (before and after the "
                    "declarations they need), one final query; each script runs in its own process with and without the intermediate queries, and with the final "
                    "query repeated; distinct = distinct scripts", "bound": "%d scripts x 3 processes" % n}


def replay_body(f):
    return ("from native.p_c08 import run_script\nscript = %r\na, b = run_script(script, True), run_script(script, False)\nprint(a, b)\nsys.exit(0 if a == b else 1)\n" % (f["script"],))
