"""C05 stand-in (bounded): conversion is a linear, invertible, route-independent scaling."""
from decimal import Decimal
from .common import namespace, seed_rng

CHECK = '''
def c05_check(src, dst, mid, mag, k, ns):
    """returns list of violated clause names (empty = ok or not convertible)"""
    from measured.conversions import ConversionNotFound
    from decimal import Decimal
    a, b = eval(src, ns), eval(dst, ns)
    bad = []
    def close(x, y, tol):
        x, y = float(x), float(y)
        return abs(x - y) <= tol * max(abs(x), abs(y), 1e-300)
    degree = max(1, sum(abs(e) for e in a.factors.values()), sum(abs(e) for e in b.factors.values()))
    tol = 1e-5 * degree
    try:
        q = (mag * a).in_unit(b)
    except ConversionNotFound:
        return bad
    kq = ((k * mag) * a).in_unit(b)
    if not close(kq.magnitude, k * q.magnitude if not isinstance(q.magnitude, Decimal) else Decimal(k) * q.magnitude, 1e-9):
        bad.append("linear: convert(k*q) = %r but k*convert(q) = %r" % (kq.magnitude, k * float(q.magnitude)))
    z = (0 * a).in_unit(b)
    if z.magnitude != 0:
        bad.append("zero: 0 converts to %r" % (z.magnitude,))
    if float(mag) != 0 and float(q.magnitude) != 0 and (float(q.magnitude) > 0) != (float(mag) > 0):
        bad.append("sign: %r converts to %r" % (mag, q.magnitude))
    if float(mag) != 0 and float(q.magnitude) == 0:
        from native import oracle
        w = oracle.expected_ratio(a, b)
        if w is not None and abs(float(w) * float(mag)) > 1e-290:
            bad.append("sign: %r converts to 0" % (mag,))
    same = (mag * a).in_unit(a)
    if not close(same.magnitude, mag, 1e-12):
        bad.append("identity: %r in its own unit is %r" % (mag, same.magnitude))
    try:
        back = q.in_unit(a)
        if not close(back.magnitude, mag, tol):
            bad.append("round-trip: %r -> %r -> %r" % (mag, q.magnitude, back.magnitude))
    except ConversionNotFound:
        pass
    if mid is not None:
        m = eval(mid, ns)
        try:
            via = (mag * a).in_unit(m).in_unit(b)
            if not close(via.magnitude, q.magnitude, 2 * tol):
                bad.append("route: direct %r, via %s %r" % (q.magnitude, mid, via.magnitude))
        except ConversionNotFound:
            pass
    return bad
'''
exec(CHECK)


def run(tier, seed):
    from . import oracle
    oracle.install()
    ns = namespace()
    from .convgen import Gen
    rng = seed_rng(seed, "C05")
    g = Gen(ns, rng)
    n = 600 if tier == "quick" else 40000
    failures, samples, evals, distinct = [], [], 0, set()
    mags = [3, -2, 2.5, -0.75, Decimal("1.5"), 1e6]
    while evals < n and len([f for f in failures if not f["key"].startswith("known:")]) < 4:
        a, b = g.pair()
        mid = None
        if rng.random() < 0.5:
            # an intermediate of the same dimension: the source re-spelt unit by unit, or the source under a prefix
            try:
                mid = g.third(a)
                if eval(mid, ns).dimension is not eval(a, ns).dimension or eval(mid, ns) is eval(a, ns):
                    mid = None
            except Exception:
                mid = None
        mag, k = rng.choice(mags), rng.choice([2, -3, 0.5, 10])
        if isinstance(mag, Decimal):
            k = int(k) or 2
        try:
            bad = c05_check(a, b, mid, mag, k, ns)
        except Exception as e:
            bad = ["error: %s: %s" % (type(e).__name__, e)]
        evals += 1
        distinct.add((a, b, mid))
        from .p_c04 import astronomical
        if bad and (astronomical(eval(a, ns), eval(b, ns)) or (mid and astronomical(eval(mid, ns), eval(b, ns)))):
            bad = []
        for msg in bad:
            clause = msg.split(":")[0]
            from .p_c04 import classify
            cls = classify(a, b, "WRONG", "relative error 1", ns) if clause in ("route", "round-trip") else "wrong-value"
            if clause == "route" and mid is not None and cls == "wrong-value":
                cls = classify(a, mid, "WRONG", "relative error 1", ns)
            if clause == "route" and mid is not None and cls == "wrong-value":
                cls = classify(mid, b, "WRONG", "relative error 1", ns)
            if clause == "route" and mid is not None and cls == "wrong-value":
                # the recorded finding is about the units of dimension Number of a conversion being of different KINDS: on a route
                # the kinds of all three units count (1 m -> deg*m directly is 1, through rad*ly it is 57.3)
                import measured
                kinds = {f for u in (a, b, mid) for f in eval(u, ns).factors if f.dimension is measured.Number and f is not measured.One}
                if len(kinds) >= 2:
                    cls = "wrong-value:dimensionless-units"
            if clause == "route" and any(n_ in a + b + (mid or "") for n_ in ("TonOfRefrigeration", "BoilerHorsepower")):
                cls = "wrong-value:BTU-IT-vs-thermochemical"
            key = clause if cls == "wrong-value" else "known:" + cls.split(":", 1)[1] + ":" + clause
            if sum(1 for f in failures if f["key"] == key) < 2:
                failures.append({"key": key, "desc": "%s -> %s: %s" % (a, b, msg), "src": a, "dst": b, "mid": mid, "mag": repr(mag), "k": k})
        if len(samples) < 4:
            samples.append("%r * %s -> %s via %s" % (mag, a, b, mid))
    return {"evaluations": evals, "distinct": len(distinct), "failures": failures, "samples": samples,
            "rule": "C04 pair space x magnitudes (int, float, Decimal, both signs) x scale factors x optional intermediate unit; clauses linear, zero, "
                    "sign, identity, round-trip, route; distinct = distinct (source, target, intermediate)", "bound": "%d triples" % n}


def replay_body(f):
    return ("from native import oracle\noracle.install()\nfrom native.common import namespace\nns = namespace()\nfrom decimal import Decimal\n" + CHECK +
            "bad = c05_check(%r, %r, %r, %s, %r, ns)\nprint(bad)\nsys.exit(1 if bad else 0)\n" % (f["src"], f["dst"], f["mid"], f["mag"], f["k"]))
