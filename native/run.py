"""Entry point of the native stand-ins: /venv/bin/python -m native.run <prop> --tier T --seed N --out FILE"""
import argparse
import importlib
import json
import sys
import time
import traceback


def main():
    ap = argparse.ArgumentParser()
    ap.add_argument("prop")
    ap.add_argument("--tier", default="quick")
    ap.add_argument("--seed", type=int, default=0)
    ap.add_argument("--out", required=True)
    a = ap.parse_args()
    t0 = time.time()
    try:
        mod = importlib.import_module("native.p_" + a.prop.lower())
        res = mod.run(a.tier, a.seed)
        for f in res["failures"]:
            f["replay_body"] = mod.replay_body(f)
        res["error"] = None
    except Exception as e:
        res = {"evaluations": 0, "distinct": 0, "failures": [], "samples": [], "error": "%s\n%s" % (e, traceback.format_exc())}
    res["wall_s"] = round(time.time() - t0, 2)
    json.dump(res, open(a.out, "w"), default=str)


main()
