"""C06 stand-in (bounded): physical value of a+b, a-b, a*b, a/b, a**n and the truth of
a==b, a<b do not change when an operand is re-expressed in a convertible unit / prefix."""
from .common import namespace, seed_rng

CHECK = '''
def c06_check(ua, ua2, ub, mag_a, mag_b, op, ns):
    """ua2 is a re-expression unit for ua (same dimension). Returns list of violations."""
    from measured.conversions import ConversionNotFound
    from native import oracle
    A, A2, B = eval(ua, ns), eval(ua2, ns), eval(ub, ns)
    from decimal import Decimal as _D
    if isinstance(mag_a, str): mag_a = _D(mag_a)   # Decimal magnitudes travel as text (replay files, JSON)
    if isinstance(mag_b, str): mag_b = _D(mag_b)
    a, b = mag_a * A, mag_b * B
    try:
        a2 = a.in_unit(A2)
    except ConversionNotFound:
        return []
    if oracle.expected_ratio(A, A2) is None:
        return []  # the oracle has no size ratio for this re-expression (different anchor units)
    def si(q):
        S = oracle.sizes()
        m = S.unit_mono(q.unit)
        try:
            return None if m is None else float(q.magnitude) * float(m.coef)
        except OverflowError:
            return None
    def close(x, y, deg):
        if min(abs(x), abs(y)) < 1e-150 or max(abs(x), abs(y)) > 1e150:
            return True  # outside the range where a float product/power is meaningful (underflow/overflow), not a C06 matter
        return abs(x - y) <= 1e-5 * max(1, deg) * max(abs(x), abs(y), 1e-300) * 4
    bad = []
    deg = lambda u: max(1, sum(abs(e) for e in u.factors.values()))
    try:
        if op in ("add", "sub"):
            f = (lambda x, y: x + y) if op == "add" else (lambda x, y: x - y)
            r1, r2 = f(a, b), f(a2, b)
            v1, v2 = si(r1), si(r2)
            if v1 is not None and v2 is not None and not close(v1, v2, deg(A) + deg(B)) and abs(v1 - v2) > 1e-9 * (abs(si(a)) + abs(si(b))):
                bad.append("%s: SI value %r vs %r after re-expressing the left operand" % (op, v1, v2))
            r3 = f(b, a)
            r4 = f(b, a2)
            v3, v4 = si(r3), si(r4)
            if v3 is not None and v4 is not None and not close(v3, v4, deg(A) + deg(B)) and abs(v3 - v4) > 1e-9 * (abs(si(a)) + abs(si(b))):
                bad.append("%s (right operand re-expressed): SI value %r vs %r" % (op, v3, v4))
        elif op in ("mul", "div"):
            f = (lambda x, y: x * y) if op == "mul" else (lambda x, y: x / y)
            v1, v2 = si(f(a, b)), si(f(a2, b))
            if v1 is not None and v2 is not None and not close(v1, v2, deg(A) + deg(B)):
                bad.append("%s: SI value %r vs %r" % (op, v1, v2))
        elif op == "pow":
            v1, v2 = si(a ** 2), si(a2 ** 2)
            if v1 is not None and v2 is not None and not close(v1, v2, 2 * deg(A)):
                bad.append("pow: SI value %r vs %r" % (v1, v2))
        elif op in ("eq", "lt"):
            # away from ties: compare a with 1.01*a re-expressed
            hi = (mag_a * (1.01 if not isinstance(mag_a, _D) else _D("1.01"))) * A
            hi2 = hi.in_unit(A2)
            try:
                obs = (a < hi2, a2 < hi, hi2 > a, a == hi2, hi == a2)
            except TypeError:
                return bad
            if obs != (True, True, True, False, False):
                bad.append("%s: (a < hi', a' < hi, hi' > a, a == hi', hi == a') = %r, expected (True, True, True, False, False)" % (op, obs))
    except (ConversionNotFound, OverflowError):
        return bad
    return bad
'''
exec(CHECK)


def run(tier, seed):
    from . import oracle
    oracle.install()
    ns = namespace()
    from .convgen import Gen
    from .p_c04 import classify
    rng = seed_rng(seed, "C06")
    g = Gen(ns, rng)
    n = 500 if tier == "quick" else 30000
    failures, samples, evals, distinct = [], [], 0, set()
    absolute, scales_ = ["Kelvin", "Rankine", "(Milli*Kelvin)", "(Kilo*Rankine)"], ["Celsius", "Fahrenheit", "(Milli*Celsius)", "(Kilo*Fahrenheit)", "Kelvin", "Rankine"]
    while evals < n and len([f for f in failures if not f["key"].startswith("known:")]) < 4:
        if rng.random() < 0.04:
            # temperatures: a value in an absolute unit (K, R) plus or minus a temperature written in any scale is the sum / difference
            # of the kelvin values, whichever scale the right operand is written in
            evals += 1
            A, B1, B2 = rng.choice(absolute), rng.choice(scales_), rng.choice(scales_)
            x, y = rng.choice([300, 2.5, 1000.0]), rng.choice([5, -40, 20.5, 0])
            try:
                a, b1 = x * eval(A, ns), y * eval(B1, ns)
                b2 = b1.in_unit(eval(B2, ns))
                k = lambda q: float(q.in_unit(ns["Kelvin"]).magnitude)
                for opn, f in (("add", lambda p, q: p + q), ("sub", lambda p, q: p - q)):
                    r1, r2 = f(a, b1), f(a, b2)
                    want = k(a) + k(b1) if opn == "add" else k(a) - k(b1)
                    for r in (r1, r2):
                        got = float(r.in_unit(ns["Kelvin"]).magnitude) if True else None
                        if abs(got - want) > 1e-6 * max(1.0, abs(want), abs(k(a)), abs(k(b1))):
                            key = "scale-" + opn
                            if sum(1 for f_ in failures if f_["key"] == key) < 2:
                                failures.append({"key": key, "desc": "%s: (%r %s) %s (%r %s written in %s): kelvin value %r, expected %r" % (opn, x, A, "+" if opn == "add" else "-", y, B1, B2, got, want),
                                                 "args": [A, B1, B2, x, y, opn], "scale": True})
            except Exception as e:
                failures.append({"key": "scale-error", "desc": "temperature arithmetic raised %s: %s" % (type(e).__name__, e), "args": [A, B1, B2, x, y, "add"], "scale": True})
            continue
        ua, ua2 = g.pair()
        op = rng.choice(["add", "sub", "mul", "div", "pow", "eq", "lt"])
        if op in ("add", "sub"):
            _, ub = g.pair() if False else (None, ua2 if rng.random() < 0.5 else ua)
            if rng.random() < 0.5:
                ub = "(%s*%s)" % (rng.choice(g.prefixes), ub) if not ub.startswith("((") else ub
        else:
            ub, _ = g.pair()
            if op in ("mul", "div") and rng.random() < 0.5:
                # the other operand in (a prefixed form of) the same unit: a quotient of like quantities is where a shortcut would go
                ub = rng.choice([ua, ua2])
                if rng.random() < 0.7 and not ub.startswith("(("):
                    ub = "(%s*%s)" % (rng.choice(g.prefixes + g.prefixes2), ub)
        ma, mb = rng.choice([3, 2.5, 40, 0.125]), rng.choice([2, 7.5, 0.5])
        if op in ("add", "sub", "eq", "lt") and rng.random() < 0.2:
            ma, mb = rng.choice(["2.5", "40", "8192"]), rng.choice(["2", "7.5", "3"])  # Decimal on both sides (Decimal and float do not mix in + -)
        try:
            bad = c06_check(ua, ua2, ub, ma, mb, op, ns)
        except Exception as e:
            bad = ["error: %s: %s" % (type(e).__name__, e)]
        evals += 1
        distinct.add((ua, ua2, op))
        from .p_c04 import astronomical
        if bad and (astronomical(eval(ua, ns), eval(ua2, ns)) or astronomical(eval(ub, ns), eval(ub, ns))):
            bad = []
        for msg in bad:
            cls = classify(ua, ua2, "WRONG", "relative error 1", ns)
            if any(n_ in ua + ua2 + ub for n_ in ("TonOfRefrigeration", "BoilerHorsepower")):
                cls = "wrong-value:BTU-IT-vs-thermochemical"
            key = msg.split(":")[0] if cls == "wrong-value" else "known:" + cls.split(":", 1)[1]
            if sum(1 for f in failures if f["key"] == key) < 2:
                failures.append({"key": key, "desc": "%s [%s as %s] with %s: %s" % (op, ua, ua2, ub, msg), "args": [ua, ua2, ub, ma, mb, op]})
        if len(samples) < 4:
            samples.append("%s: %r*%s re-expressed in %s, other %r*%s" % (op, ma, ua, ua2, mb, ub))
    return {"evaluations": evals, "distinct": len(distinct), "failures": failures, "samples": samples,
            "rule": "left operand re-expressed in a convertible unit/prefix from the C04 pair space; + - with both operand orders, * / **2, == and < against a 1% larger "
                    "quantity (away from ties); SI values from the exact-rational oracle; distinct = distinct (unit, re-expression, operator)", "bound": "%d cases" % n}


def replay_body(f):
    if f.get("scale"):
        A, B1, B2, x, y, opn = f["args"]
        return ("from native.common import namespace\nns = namespace()\na, b1 = %r * eval(%r, ns), %r * eval(%r, ns)\nb2 = b1.in_unit(eval(%r, ns))\n"
                "k = lambda q: float(q.in_unit(ns['Kelvin']).magnitude)\nop = (lambda p, q: p + q) if %r == 'add' else (lambda p, q: p - q)\n"
                "want = k(a) + k(b1) if %r == 'add' else k(a) - k(b1)\nbad = [k(op(a, b)) for b in (b1, b2) if abs(k(op(a, b)) - want) > 1e-6 * max(1.0, abs(want), abs(k(a)), abs(k(b1)))]\n"
                "print(want, bad)\nsys.exit(1 if bad else 0)\n" % (x, A, y, B1, B2, opn, opn))
    return ("from native import oracle\noracle.install()\nfrom native.common import namespace\nns = namespace()\n" + CHECK +
            "bad = c06_check(*%r, ns)\nprint(bad)\nsys.exit(1 if bad else 0)\n" % (f["args"],))
