"""C18 stand-in (bounded): levels and quantities interconvert by the logarithmic definition."""
import math
from .common import namespace, seed_rng

CHECK = '''
import math
def c18_check(family, ref_src, q_src, level_mag, ns):
    import measured
    if isinstance(level_mag, str):
        from decimal import Decimal
        level_mag = eval(level_mag, {"Decimal": Decimal})
    fam = eval(family, ns)
    ref = eval(ref_src, ns)
    lu = fam[ref]
    q = eval(q_src, ns)
    bad = []
    # the root-power (field) quantities, listed here independently of the library's own table
    M = measured
    ROOT_POWER = {M.Potential, M.Current, M.Pressure, M.Potential / M.Length, M.Speed, M.Charge / M.Length, M.Charge / M.Area, M.Charge / M.Volume}
    if set(M.ROOT_POWER_DIMENSIONS) != ROOT_POWER:
        return ["root-power-table: the library's ROOT_POWER_DIMENSIONS differs from the eight field quantities by %r" % sorted(str(d) for d in set(M.ROOT_POWER_DIMENSIONS) ^ ROOT_POWER)]
    k = 2 if ref.unit.dimension in ROOT_POWER else 1
    base, pfx = fam.base, float(fam.prefix.quantify())
    # families built by stacking a prefix on an already prefixed logarithm: the intended scale is known independently of the object
    stacked = {"DeciSemitone": 0.1 / 12, "SemitoneDeci": 0.1 / 12, "CentiDecibel": 0.001, "MilliMilliBel": 1e-6}
    if family in stacked:
        if abs(pfx / stacked[family] - 1) > 1e-9:
            return ["stacked-prefix: %s has prefix value %r, the two prefixes multiply to %r" % (family, pfx, stacked[family])]
        pfx = stacked[family]
    def close(a, b, tol=1e-9): return abs(a - b) <= tol * max(abs(a), abs(b), 1.0)
    ratio = float(q.in_unit(ref.unit).magnitude) / float(ref.magnitude)
    want = (k / pfx) * math.log(ratio, base)
    lv = lu.level(q)
    if not close(float(lv.magnitude), want): bad.append("definition: level %r, (k/prefix)*log_base(q/ref) = %r" % (lv.magnitude, want))
    back = lv.quantify()
    if not close(float(back.in_unit(q.unit).magnitude), float(q.magnitude), 1e-7): bad.append("round-trip q->level->q: %r -> %r -> %r" % (q, lv.magnitude, back))
    L = level_mag * lu
    q2 = L.quantify()
    want_q = float(ref.magnitude) * base ** (float(level_mag) * pfx / k)
    if not close(float(q2.in_unit(ref.unit).magnitude), want_q, 1e-9): bad.append("definition: %r quantifies to %r, reference * base**(level*prefix/k) = %r" % (L, q2, want_q))
    L2 = lu.level(q2)
    if not close(float(L2.magnitude), float(level_mag), 1e-7): bad.append("round-trip level->q->level: %r -> %r -> %r" % (level_mag, q2, L2.magnitude))
    if not (L == q2) or not (q2 == L): bad.append("equality: level %r does not compare equal to the quantity it denotes %r" % (level_mag, q2))
    # strictly increasing also on a fine scale and next to whole-numbered levels (q0 sits at a level of 20, 2 or so)
    q0 = ref * 100
    if not (lu.level(q0 * (1 + 2e-9)).magnitude > lu.level(q0).magnitude): bad.append("monotone-fine: level(q (1 + 2e-9)) = %r <= level(q) = %r for q = 100 reference" % (lu.level(q0 * (1 + 2e-9)).magnitude, lu.level(q0).magnitude))
    bigger = lu.level(q * 1.5)
    if not (bigger.magnitude > lv.magnitude): bad.append("monotone: level(1.5 q) = %r <= level(q) = %r" % (bigger.magnitude, lv.magnitude))
    return bad
'''
exec(CHECK)


def run(tier, seed):
    ns = namespace()
    import measured
    rng = seed_rng(seed, "C18")
    ns["Semitone"] = ns.get("Semitone") or __import__("measured.music", fromlist=["Semitone"]).Semitone
    ns["CentiNeper"] = ns["Centi"] * measured.Neper
    ns["KiloBel"] = ns["Kilo"] * measured.Bel
    ns["DeciSemitone"] = ns["Deci"] * ns["Semitone"]
    ns["SemitoneDeci"] = ns["Semitone"] * ns["Deci"]
    ns["CentiDecibel"] = ns["Centi"] * measured.Decibel
    ns["MilliMilliBel"] = ns["Milli"] * (ns["Milli"] * measured.Bel)
    fams = ["Bel", "Decibel", "Neper", "Octave", "Semitone", "CentiNeper", "KiloBel", "DeciSemitone", "SemitoneDeci", "CentiDecibel", "MilliMilliBel"]
    groups = [(["(1 * Watt)", "(1 * (Milli * Watt))", "(1 * Horsepower)", "(2 * Joule / Second)", "(1 * MetricHorsepower)"], ["Watt", "Horsepower", "(Kilo*Watt)"]),
              (["(20 * (Micro * Pascal))", "(1 * (Hecto * Pascal))", "(1 * Pascal)"], ["Pascal", "(Kilo*Pascal)", "(Mega*Pascal)"]),
              (["(1 * Volt)", "(0.775 * Volt)"], ["Volt", "(Milli*Volt)"]),
              (["(1 * Hertz)", "(440 * Hertz)"], ["Hertz", "(Kilo*Hertz)"]),
              (["(1 * Meter / Second)", "(1 * Knot)", "(1 * Mile / Hour)"], ["Knot", "(Meter / Second)"]),
              (["(1 * Ampere)", "(5 * (Milli*Ampere))"], ["Ampere", "(Micro*Ampere)"]),
              (["(1 * Volt / Meter)"], ["(Volt / Meter)", "(Kilo*Volt / Meter)"]),
              (["(1 * Coulomb / Meter)"], ["(Coulomb / Meter)"]), (["(1 * Coulomb / Meter**2)"], ["(Coulomb / Meter**2)"]),
              (["(1 * Coulomb / Meter**3)", "(5 * (Micro*Coulomb) / Meter**3)"], ["(Coulomb / Meter**3)"])]
    refs = [(r, q) for rs, qs in groups for r in rs for q in qs if q.strip("()").split("*")[-1] in ns or True]
    n = 250 if tier == "quick" else 20000
    failures, samples, evals, distinct = [], [], 0, set()
    while evals < n and len(failures) < 6:
        fam = rng.choice(fams)
        ref, qu = rng.choice(refs)
        q = "(%r * %s)" % (rng.choice([1, 2, 100, 0.001, 3.7, 1e6]), qu)
        lm = rng.choice([-200, -30, -3, 0, 0.5, 3, 10, 60, 200, 60.00000003, -29.99999998])
        as_decimal = rng.random() < 0.25
        if fam in ("DeciSemitone", "SemitoneDeci", "CentiDecibel", "MilliMilliBel") and not isinstance(lm, str):
            lm = lm * 10
        if fam in ("KiloBel",) and abs(lm) > 0.3:
            lm = lm / 1000.0
        if fam in ("Bel", "Neper", "Octave") and abs(lm) > 60:
            lm = lm / 10.0
        if as_decimal:
            lm = "Decimal(%r)" % str(lm)  # kept as source text so that the replay file can carry it
        args = [fam, ref, q, lm]
        try:
            bad = c18_check(*args, ns)
        except (OverflowError, measured.conversions.ConversionNotFound):
            bad = []
        except Exception as e:
            bad = ["error: %s: %s" % (type(e).__name__, e)]
        evals += 1
        distinct.add(tuple(args))
        for msg in bad:
            key = msg.split(":")[0]
            if sum(1 for f in failures if f["key"] == key) < 2:
                failures.append({"key": key, "desc": "%r: %s" % (args, msg), "args": args})
        if len(samples) < 4:
            samples.append(args)
    return {"evaluations": evals, "distinct": len(distinct), "failures": failures, "samples": samples,
            "rule": "7 logarithm families (bel, decibel, neper, octave, semitone, centineper, kilobel) x 9 references (power and root-power dimensions, prefixed, "
                    "compound) x quantities in convertible units x level magnitudes in [-200, 200]; closed-form definition via math.log; distinct = distinct argument tuples",
            "bound": "%d cases" % n}


def replay_body(f):
    return ("import measured\nns['Semitone'] = __import__('measured.music', fromlist=['Semitone']).Semitone\nns['CentiNeper'] = ns['Centi'] * measured.Neper\nns['KiloBel'] = ns['Kilo'] * measured.Bel\n"
            + CHECK + "bad = c18_check(*%r, ns)\nprint(bad)\nsys.exit(1 if bad else 0)\n" % (f["args"],))
