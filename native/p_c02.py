"""C02 stand-in (bounded): two differently shaped expression trees over the same multiset
of (atom, exponent) pairs must evaluate to the identical object; group laws; root∘power."""
from fractions import Fraction
from .common import namespace, pools, seed_rng, shape_zoo


def build(rng, terms):
    """a random expression (source text) whose value is the product of atom**exp over terms"""
    terms = list(terms)
    rng.shuffle(terms)
    if len(terms) == 1:
        a, e = terms[0]
        if e == 1 and rng.random() < 0.7:
            return a
        if rng.random() < 0.3 and e not in (0, 1, -1):
            k = rng.choice([d for d in (2, 3, -1) if e % d == 0] or [1])
            return "((%s**%d)**%d)" % (a, e // k, k)
        if rng.random() < 0.2:
            return "(%s**%d * %s**%d)" % (a, e - 1, a, 1)
        return "(%s**%d)" % (a, e)
    cut = rng.randrange(1, len(terms))
    left, right = terms[:cut], terms[cut:]
    if rng.random() < 0.4:
        return "(%s / %s)" % (build(rng, left), build(rng, [(a, -e) for a, e in right]))
    return "(%s * %s)" % (build(rng, left), build(rng, right))


def ns_bases_ok(ns, src, pf):
    """a zoo shape may join a same-base tree only if its own prefix has that base (or none)"""
    try:
        p = eval(src, ns).prefix
        return p.base in (0, ns[pf[0]].base) and p.exponent == int(p.exponent)
    except Exception:
        return False


def run(tier, seed):
    ns = namespace()
    import measured
    units, prefixes, dims = pools(ns)
    rng = seed_rng(seed, "C02")
    n = 400 if tier == "quick" else 40000
    # fresh base units too
    for i in range(3):
        nm = "fresh_c02_%d_%d" % (seed, i)
        if nm not in measured.Unit._by_name:
            ns["Fresh%d" % i] = measured.Unit.define(measured.Length if i % 2 else measured.Mass, nm, nm)
        else:
            ns["Fresh%d" % i] = measured.Unit._by_name[nm]
    units = units + ["Fresh0", "Fresh1", "Fresh2"]
    zoo = shape_zoo(ns)
    si = [p for p in prefixes if ns[p].base == 10]
    iec = [p for p in prefixes if ns[p].base == 2]
    dimsyms = [d for d in dims if d != "Number"]
    failures, samples, evals, distinct = [], [], 0, set()
    ns.setdefault("Unit", measured.Unit)

    mixed_bases = False
    # ground part: every registered named unit is the object its own arithmetic returns (a named unit that the intern table does not
    # know could never be produced by an expression)
    named_done = [False]

    def ground_named():
        import measured as M
        for nm_, u in sorted(M.Unit._by_name.items()):
            ns["_gu"] = u
            for law, src in (("neutral", "_gu * One"), ("neutral", "One * _gu"), ("neutral", "_gu / One"), ("power-one", "_gu ** 1"),
                             ("cancel", "(_gu * Second) / Second"), ("self-inverse", "_gu * _gu ** -1 * _gu")):
                try:
                    r = eval(src, ns)
                    okk = r is u
                except Exception as e:
                    okk, r = False, "%s: %s" % (type(e).__name__, e)
                if not okk and sum(1 for f in failures if f["key"] == "named-unit:" + law) < 2:
                    failures.append({"key": "named-unit:" + law, "desc": "for the registered unit %r, %s is %r, not the unit itself" % (nm_, src.replace("_gu", "u"), str(r)[:80]),
                                     "a": src.replace("_gu", "Unit._by_name[%r]" % nm_), "b": "Unit._by_name[%r]" % nm_, "mode": "is"})

    def bases_of(atom_srcs):
        bs = set()
        for a in atom_srcs:
            o = eval(a, ns)
            p = o if isinstance(o, measured.Prefix) else getattr(o, "prefix", None)
            if p is not None and p.base != 0:
                bs.add(p.base)
                if p.exponent != int(p.exponent):
                    bs.add("base-changed")
        return bs

    def check(kind, src_a, src_b):
        nonlocal evals
        evals += 1
        try:
            a, b = eval(src_a, ns), eval(src_b, ns)
        except Exception as e:
            if mixed_bases and kind.endswith("-root") and type(e).__name__ == "FractionalDimensionError":
                if not any(f["key"] == "mixed-base-root:FractionalDimensionError" for f in failures):
                    failures.append({"key": "mixed-base-root:FractionalDimensionError", "desc": "%s raised %s: %s" % (src_a, type(e).__name__, e),
                                     "a": src_a, "b": src_b, "mode": "scale-or-is"})
                return
            failures.append({"key": "%s:exception" % kind, "desc": "%s raised %s: %s" % (src_a + " ; " + src_b, type(e).__name__, e), "a": src_a, "b": src_b, "mode": "is"})
            return
        distinct.add(repr(a))
        if a is not b:
            if mixed_bases:
                # different prefix bases: same factors and numeric scale within 1e-9
                try:
                    import math as _m
                    lg = lambda p: float(p.exponent) * _m.log(p.base) if p.base else 0.0  # log of the scale: 2**1500.34 does not fit a float
                    ok = a.factors == b.factors and abs(lg(a.prefix) - lg(b.prefix)) <= 1e-9
                except Exception:
                    ok = False
                if ok:
                    return
            failures.append({"key": "%s:not-identical" % kind, "desc": "%s  is not  %s  (%r vs %r)" % (src_a, src_b, a, b), "a": src_a, "b": src_b,
                             "mode": "scale-or-is" if mixed_bases else "is"})

    ground_named()
    evals += 6 * len(measured.Unit._by_name)
    while evals < n + 6 * len(measured.Unit._by_name) and len([f for f in failures if not f['key'].startswith('mixed-base-root')]) < 6:
        kind = rng.choice(["unit", "unit", "unit", "dim", "prefix"])
        forced = None
        if kind == "unit":
            pf = rng.choice([si, iec])
            atoms = []
            for _ in range(rng.choice([1, 2, 3, 4])):
                u = rng.choice(units)
                atoms.append("(%s*%s)" % (rng.choice(pf), u) if rng.random() < 0.3 else u)
            if rng.random() < 0.3:
                zs = rng.choice(zoo)
                if ns_bases_ok(ns, zs, pf):
                    atoms.append("(%s)" % zs)
            if rng.random() < 0.2:
                # a dimensionless unit that keeps a prefix: (p*u)**e * u**-e  (and nothing else, half of the time)
                u, e = rng.choice(units), rng.choice([1, 2, 3])
                if ns[u].prefix.base in (0, ns[pf[0]].base):
                    if rng.random() < 0.5:
                        atoms = []
                    forced = {"(%s*%s)" % (rng.choice(pf), u): e, u: -e}
        elif kind == "dim":
            atoms = [rng.choice(dimsyms) for _ in range(rng.choice([1, 2, 3]))]
        else:
            pf = rng.choice([si, iec])
            atoms = [rng.choice(pf) for _ in range(rng.choice([1, 2, 3]))]
        terms = {}
        for a in atoms:
            terms[a] = terms.get(a, 0) + rng.choice([-3, -2, -1, 1, 2, 3])
        if forced:
            for a_, e_ in forced.items():
                terms[a_] = e_
        terms = [(a, e) for a, e in terms.items() if e != 0]
        if not terms:
            continue
        mixed_bases = kind != "dim" and len(bases_of([t[0] for t in terms])) > 1
        a, b = build(rng, terms), build(rng, terms)
        check(kind, a, b)
        if len(samples) < 5:
            samples.append("%s  is  %s" % (a, b))
        x = a
        k = rng.choice([2, 3, -2])
        neutral = {"unit": "One", "dim": "Number", "prefix": "IdentityPrefix"}[kind]
        law = rng.choice(["inv", "root", "neutral", "exp", "div"])
        if law == "inv":
            check(kind + "-inverse", "(%s * %s**-1)" % (x, x), "(%s / %s)" % (x, x))
        elif law == "root":
            check(kind + "-root", "((%s)**%d).root(%d)" % (x, k, k), x)
        elif law == "neutral" and kind != "prefix":
            check(kind + "-neutral", "(%s * %s)" % (x, neutral), x)
        elif law == "exp":
            check(kind + "-exp", "(%s**2 * %s**3)" % (x, x), "(%s**5)" % x)
        elif law == "div":
            check(kind + "-div", "(%s / %s)" % (x, b), "(%s * (%s)**-1)" % (x, b))
    # mixed-base prefixes: scale within 1e-9
    mixed = 0
    for _ in range(40 if tier == "quick" else 2000):
        p, q = rng.choice(si), rng.choice(iec)
        e1, e2 = rng.choice([-2, -1, 1, 2]), rng.choice([-2, -1, 1, 2])
        src = "(%s**%d * %s**%d)" % (p, e1, q, e2)
        want = Fraction(10) ** (ns[p].exponent * e1) * Fraction(2) ** (ns[q].exponent * e2)
        try:
            got = eval(src, ns).quantify()
        except Exception as e:
            failures.append({"key": "mixed:exception", "desc": "%s raised %s" % (src, e), "a": src, "b": repr(float(want)), "mode": "scale"})
            continue
        evals += 1
        mixed += 1
        if abs(float(got) / float(want) - 1) > 1e-9:
            failures.append({"key": "mixed:scale", "desc": "%s quantifies to %r, expected %r" % (src, got, float(want)), "a": src, "b": repr(float(want)), "mode": "scale"})
    return {"evaluations": evals, "distinct": len(distinct), "failures": failures[:3], "samples": samples,
            "rule": "pairs of random expression trees (*, /, **, nested powers) over one multiset of atoms (units incl. 3 fresh base units, "
                    "same-base prefixes, dimensions), |exponent|<=3, <=6 atoms; group laws on each; %d mixed SI/IEC prefix products; "
                    "distinct = distinct resulting objects" % mixed,
            "bound": "%d pairs" % n}


def replay_body(f):
    if f["mode"] == "scale-or-is":
        return ("a = eval(%r, ns)\nb = eval(%r, ns)\nprint(repr(a), repr(b))\n"
                "import math\nlg = lambda p: float(p.exponent) * math.log(p.base) if p.base else 0.0\nok = a is b or (a.factors == b.factors and abs(lg(a.prefix) - lg(b.prefix)) <= 1e-9)\n"
                "sys.exit(0 if ok else 1)\n" % (f["a"], f["b"]))
    if f["mode"] == "is":
        return "import measured\nns.setdefault('Unit', measured.Unit)\na = eval(%r, ns)\nb = eval(%r, ns)\nprint(repr(a), repr(b))\nsys.exit(0 if a is b else 1)\n" % (f["a"], f["b"])
    return "g = float(eval(%r, ns).quantify())\nw = %s\nprint(g, w)\nsys.exit(0 if abs(g / w - 1) <= 1e-9 else 1)\n" % (f["a"], f["b"])
