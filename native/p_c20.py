"""C20 stand-in (bounded, deterministic scheduler): two threads construct the same new dimension /
prefix / unit; thread A is parked (sys.settrace, line granularity) at every line of the interning
constructor in turn while thread B runs to completion (or blocks on the lock), then A resumes.
Both must obtain the same object and the registry must hold a single entry for it."""
import sys
import threading
from .common import namespace, seed_rng

SCHED = '''
import sys, threading
def race(make, code_name, park_at):
    """run make() in two threads; A parks the park_at-th time a line of function `code_name` is traced"""
    results, state = {}, {"count": 0, "parked": threading.Event(), "resume": threading.Event(), "done": False}
    def tracer(frame, event, arg):
        if frame.f_code not in code_name:
            return tracer if event == "call" else None
        def local(frame, event, arg):
            if event == "line" and not state["done"]:
                state["count"] += 1
                if state["count"] == park_at:
                    state["done"] = True
                    state["parked"].set()
                    state["resume"].wait(5)
            return local
        return local
    def a():
        sys.settrace(tracer)
        try: results["A"] = make()
        finally: sys.settrace(None)
    def b():
        results["B"] = make()
    ta = threading.Thread(target=a); tb = threading.Thread(target=b)
    ta.start()
    reached = state["parked"].wait(2)
    tb.start()
    tb.join(0.3)            # B finishes, or blocks on the lock A holds
    state["resume"].set()
    ta.join(5); tb.join(5)
    return results.get("A"), results.get("B"), reached
def c20_check(kind, n, park_at, ns):
    import measured
    if kind == "dimension":
        exps = tuple([0, n, -n, 7] + [0] * (len(measured.Number.exponents) - 4))
        make = lambda: measured.Dimension(exps)
        table, count = measured.Dimension._known, lambda: sum(1 for d in measured.Dimension._known.values() if d.exponents == exps)
        name = (measured.Dimension.__new__.__code__, measured.Dimension.__init__.__code__)
    elif kind == "prefix":
        make = lambda: measured.Prefix(7, n)
        count = lambda: sum(1 for p in measured.Prefix._known.values() if p._initialized and (p.base, p.exponent) == (7, n))
        name = (measured.Prefix.__new__.__code__, measured.Prefix.__init__.__code__)
    elif kind == "unit":
        u, v = ns["Meter"], ns["Second"]
        make = lambda: measured.Unit(measured.IdentityPrefix, {u: n, v: -n}, u.dimension ** n / v.dimension ** n)
        count = lambda: sum(1 for x in measured.Unit._known.values() if dict(x.factors) == {u: n, v: -n} and x.prefix is measured.IdentityPrefix)
        name = (measured.Unit.__new__.__code__, measured.Unit.__init__.__code__)
    else:
        u, v = ns["Meter"], ns["Second"]
        a_, b_ = u ** n, v ** (n + 1)
        make = lambda: a_ * b_
        count = lambda: sum(1 for x in measured.Unit._known.values() if dict(x.factors) == {u: n, v: n + 1} and x.prefix is measured.IdentityPrefix)
        name = (measured.Unit.__new__.__code__, measured.Unit.__init__.__code__)
    A, B, reached = race(make, name, park_at)
    bad = []
    if not reached:
        return bad, reached  # the constructor has fewer traced lines than this park point
    if A is None or B is None: bad.append("hang: a thread did not finish")
    elif A is not B: bad.append("identity: the two threads obtained different objects for the same %s" % kind)
    if count() != 1: bad.append("registry: %d entries for one %s" % (count(), kind))
    later = make()
    if A is not None and later is not A: bad.append("later: a later evaluation returns yet another object")
    return bad, reached
'''
exec(SCHED)


def run(tier, seed):
    ns = namespace()
    rng = seed_rng(seed, "C20")
    failures, samples, evals, distinct = [], [], 0, set()
    base = 1000 + (seed % 97) * 40
    kinds = ["dimension", "prefix", "unit", "multiply"]
    lines = range(1, 15) if tier == "quick" else range(1, 26)
    i = 0
    for kind in kinds:
        for park in lines:
            i += 1
            n = base + i
            bad, reached = c20_check(kind, n, park, ns)
            evals += 1
            if reached:
                distinct.add((kind, park))
            for msg in bad:
                key = "%s:%s" % (kind, msg.split(":")[0])
                if sum(1 for f in failures if f["key"] == key) < 2:
                    failures.append({"key": key, "desc": "%s, thread A parked at traced line %d of __new__: %s" % (kind, park, msg), "kind": kind, "n": n + 5000, "park": park})
            if len(samples) < 4:
                samples.append("%s: A parked at line event %d, B run to completion/blocked, A resumed" % (kind, park))
    return {"evaluations": evals, "distinct": len(distinct), "failures": failures, "samples": samples,
            "rule": "2 threads x {Dimension(...), Prefix(...), Unit(...), Unit*Unit via the memoised _multiply} on fresh keys; thread A parked at each of the first %d "
                    "traced line events inside the interning constructor, thread B run meanwhile; distinct = (kind, park point) pairs actually reached" % len(lines),
            "bound": "%d schedules (2 threads, one preemption each)" % evals}


def replay_body(f):
    return SCHED + "bad, reached = c20_check(%r, %d, %d, ns)\nprint(bad, reached)\nsys.exit(1 if bad else 0)\n" % (f["kind"], f["n"], f["park"])
