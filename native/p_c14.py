"""C14 stand-in (bounded): first-order Gaussian propagation for + - * / and integer powers."""
import math
from fractions import Fraction
from .common import namespace, seed_rng

CHECK = '''
import math
def c14_check(op, x, sx, y, sy, n, ux, uy, left_kind, right_kind, ns):
    """operands: measurement (x +- sx) ux  and  (y +- sy) uy (or plain quantity when kind == 'q')"""
    import measured
    from measured import Measurement
    from measured.conversions import ConversionNotFound
    UX, UY = eval(ux, ns), eval(uy, ns)
    from decimal import Decimal as _D
    if isinstance(x, str): x = _D(x)
    if isinstance(y, str): y = _D(y)
    A = Measurement(x * UX, sx) if left_kind == "m" else x * UX
    B = Measurement(y * UY, sy) if right_kind == "m" else y * UY
    if left_kind != "m": sx = 0
    if right_kind != "m": sy = 0
    bad = []
    X, Y = x, y                      # as given (int, float or Decimal): what the library sees
    x, y = (float(x) if not isinstance(x, int) else x), (float(y) if not isinstance(y, int) else y)   # what the oracle computes with
    try:
        if op == "pow":
            if left_kind != "m": return bad
            r = A ** n
            want_m, want_s = x ** n, (0 if n == 0 else abs(n * x ** (n - 1) * sx))
            plain = (x * UX) ** n
        else:
            f = {"add": lambda a, b: a + b, "sub": lambda a, b: a - b, "mul": lambda a, b: a * b, "div": lambda a, b: a / b}[op]
            r = f(A, B)
            qa, qb = x * UX, y * UY
            plain = f(qa, qb)
            if op in ("add", "sub"):
                if UX.factors == UY.factors:
                    # the same unit under two prefixes: the ratio comes from the prefix values themselves, not from the library's conversion
                    pvv = lambda p: float(p.base) ** float(p.exponent) if p.base else 1.0
                    k_ = pvv(UY.prefix) / pvv(UX.prefix)
                    yy, syy = y * k_, sy * k_
                else:
                    yy = (y * UY).in_unit(UX).magnitude
                    syy = (sy * UY).in_unit(UX).magnitude if sy else 0
                want_m = x + yy if op == "add" else x - yy
                want_s = math.sqrt(sx ** 2 + syy ** 2)
            elif op == "mul":
                want_m, want_s = x * y, math.sqrt((y * sx) ** 2 + (x * sy) ** 2)
            else:
                want_m, want_s = x / y, math.sqrt((sx / y) ** 2 + (x * sy / y ** 2) ** 2)
    except (ConversionNotFound, ZeroDivisionError, OverflowError):
        if op == "div" and y == 0: return bad
        if op == "pow" and x == 0 and n < 0: return bad
        if op in ("add", "sub"): return bad
        import traceback
        bad.append("raised: " + traceback.format_exc().splitlines()[-1])
        return bad
    if not isinstance(r, Measurement):
        bad.append("type: result is %r" % type(r).__name__); return bad
    def close(a, b): return abs(a - b) <= 1e-9 * max(abs(a), abs(b), 1e-300) or abs(a - b) < 1e-300
    ru = r.measurand.unit
    if ru.dimension is not plain.unit.dimension or not close(float(r.measurand.magnitude), float(plain.in_unit(ru).magnitude)):
        bad.append("measurand: %r, plain quantities give %r" % (r.measurand, plain))
    if r.uncertainty.magnitude < 0:
        bad.append("negative: sigma %r" % (r.uncertainty.magnitude,))
    if op in ("add", "sub"):
        want_s = (want_s * UX).in_unit(ru).magnitude  # the oracle worked in the left operand's unit
    if r.uncertainty.unit is not ru or not close(float(r.uncertainty.magnitude), float(want_s)):
        bad.append("sigma: %r, first-order propagation gives %r" % (r.uncertainty.magnitude, want_s))
    return bad
'''
exec(CHECK)


def run(tier, seed):
    ns = namespace()
    rng = seed_rng(seed, "C14")
    n = 600 if tier == "quick" else 40000
    units = [("Meter", "Meter"), ("Meter", "Foot"), ("Second", "Minute"), ("Meter", "(Kilo*Meter)"), ("Joule", "Calorie"), ("Meter", "Second"),
             ("(Mebi*Byte)", "(Kibi*Byte)"), ("Byte", "(Kibi*Bit)"), ("(Kilo*Bit)", "(Kibi*Bit)")]
    failures, samples, evals, distinct = [], [], 0, set()
    xs = [0, 2, -3, 0.5, 7.25, -0.125]
    while evals < n and len(failures) < 6:
        op = rng.choice(["add", "sub", "mul", "div", "pow"])
        ux, uy = rng.choice(units)
        if op in ("add", "sub") and eval(ux, ns).dimension is not eval(uy, ns).dimension:
            uy = ux
        x, y = rng.choice(xs), rng.choice(xs)
        if op in ("mul", "div") and rng.random() < 0.25:
            # a Decimal measurand on one side (as text, so that the replay file can carry it); exponent-free operators only
            if rng.random() < 0.5:
                x = rng.choice(["2.5", "-3", "40"])
            else:
                y = rng.choice(["2.5", "-3", "40"])
        sx, sy = rng.choice([0, 0.1, 0.5, 2]), rng.choice([0, 0.2, 0.25])
        if op in ("add", "sub") and rng.random() < 0.3 and not isinstance(x, str) and not isinstance(y, str):
            # a large measurand with a tiny uncertainty (|x| / sigma of 1e7 and more): the uncertainty must not be obtained as a difference of two large numbers
            y, sy = rng.choice([3e8, 123456.789, -2.5e6, 1e12]), rng.choice([1e-4, 1e-5, 1e-7])
            sx = rng.choice([0, 1e-5, 1e-6])
        e = rng.choice([-4, -3, -2, -1, 0, 1, 2, 3, 4])
        lk, rk = rng.choice(["m", "m", "q"]), rng.choice(["m", "m", "q"])
        if lk == "q" and rk == "q":
            lk = "m"
        args = [op, x, sx, y, sy, e, ux, uy, lk, rk]
        try:
            bad = c14_check(*args, ns)
        except Exception as ex:
            bad = ["error: %s: %s" % (type(ex).__name__, ex)]
        evals += 1
        distinct.add((op, x, sx, y, sy, e if op == "pow" else 0, ux, uy, lk, rk))
        for msg in bad:
            key = "%s:%s" % (op, msg.split(":")[0])
            if sum(1 for f in failures if f["key"] == key) < 2:
                failures.append({"key": key, "desc": "%r: %s" % (args, msg), "args": args})
        if len(samples) < 4:
            samples.append(repr(args))
    return {"evaluations": evals, "distinct": len(distinct), "failures": failures, "samples": samples,
            "rule": "operators + - * / ** x measurands {0, +-, fractions} x sigmas {0, ...} x exponents [-4,4] x measurement/quantity on either side x "
                    "unit pairs (same, convertible, prefixed, different dimension); oracle = analytic partial derivatives; distinct = distinct argument tuples",
            "bound": "%d cases" % n}


def replay_body(f):
    return CHECK + "bad = c14_check(*%r, ns)\nprint(bad)\nsys.exit(1 if bad else 0)\n" % (f["args"],)
