"""C10 (exhaustive over the 12 scale pairs x registered prefixes (SI and IEC), sampled magnitudes):
temperature conversions follow the exact affine definitions C = K - 273.15, F = R - 459.67,
R = 9/5 K."""
from decimal import Decimal
from fractions import Fraction
from .common import namespace, pools, seed_rng

CHECK = '''
from fractions import Fraction
def to_kelvin(scale, x):
    x = Fraction(x)
    return {"Kelvin": x, "Celsius": x + Fraction("273.15"), "Rankine": x * Fraction(5, 9),
            "Fahrenheit": (x + Fraction("459.67")) * Fraction(5, 9)}[scale]
def from_kelvin(scale, k):
    return {"Kelvin": k, "Celsius": k - Fraction("273.15"), "Rankine": k * Fraction(9, 5),
            "Fahrenheit": k * Fraction(9, 5) - Fraction("459.67")}[scale]
def c10_check(src, psrc, dst, pdst, mag, ns):
    """(mag * psrc*src).in_unit(pdst*dst) against the closed form; returns list of violations"""
    from decimal import Decimal
    def pv(p):
        if p is None: return Fraction(1)
        P = ns[p]; return Fraction(P.base) ** int(P.exponent) if P.exponent >= 0 else 1 / Fraction(P.base) ** int(-P.exponent)
    a = ns[src] if psrc is None else ns[psrc] * ns[src]
    b = ns[dst] if pdst is None else ns[pdst] * ns[dst]
    m = Fraction(str(mag)) if not isinstance(mag, (int, Fraction)) else Fraction(mag)
    want = from_kelvin(dst, to_kelvin(src, m * pv(psrc))) / pv(pdst)
    bad = []
    r = (mag * a).in_unit(b)
    if r.unit is not b:
        bad.append("unit: result unit is %r" % (r.unit,))
    got = Fraction(str(r.magnitude)) if isinstance(r.magnitude, Decimal) else Fraction(r.magnitude)
    scale = max(abs(want), abs(Fraction("273.15") / pv(pdst)), Fraction(1, 10**30))
    if abs(got - want) > scale * Fraction(1, 10**9):
        bad.append("value: got %r, exact %r" % (r.magnitude, float(want)))
    back = r.in_unit(a)
    gb = Fraction(str(back.magnitude)) if isinstance(back.magnitude, Decimal) else Fraction(back.magnitude)
    if abs(gb - m) > max(abs(m), Fraction("273.15") / pv(psrc)) * Fraction(1, 10**9):
        bad.append("round-trip: %r -> %r -> %r" % (mag, r.magnitude, back.magnitude))
    return bad
def c10_order(src, dst, m1, m2, ns):
    """equality and ordering across scales agree with kelvin values"""
    a1, a2 = m1 * ns[src], m2 * ns[dst]
    k1, k2 = to_kelvin(src, Fraction(str(m1))), to_kelvin(dst, Fraction(str(m2)))
    bad = []
    if abs(k1 - k2) > Fraction(1, 10**6):
        if (a1 < a2) != (k1 < k2): bad.append("order: %r %s < %r %s is %r" % (m1, src, m2, dst, a1 < a2))
        if a1 == a2: bad.append("equality: %r %s == %r %s" % (m1, src, m2, dst))
    # the same temperature written in the other scale (the library's own conversion of a1, compared by the very same conversion):
    # exactly one of < == > holds, and it is ==
    same = a1.in_unit(ns[dst])
    obs = (a1 < same, a1 <= same, a1 == same, a1 >= same, a1 > same, a1 != same)
    if obs != (False, True, True, True, False, False):
        bad.append("equal-temperatures: (< <= == >= > !=) of %r %s against its own value in %s are %r" % (m1, src, dst, obs))
    return bad
'''
exec(CHECK)
SCALES = ["Kelvin", "Celsius", "Fahrenheit", "Rankine"]


def run(tier, seed):
    ns = namespace()
    _, prefixes, _ = pools(ns)
    si = [p for p in prefixes if ns[p].base in (10, 2)]  # every registered prefix, decimal (SI) and binary (IEC)
    rng = seed_rng(seed, "C10")
    mags = [0, 25, -40, 300.5, -500, Decimal("36.6"), 1e6, -273.15]
    failures, samples, evals, distinct = [], [], 0, set()
    for s in SCALES:
        for d in SCALES:
            if s == d:
                continue
            combos = [(None, None)] + [(p, None) for p in si] + [(None, p) for p in si]
            if tier != "quick":
                combos += [(p, q) for p in si for q in si]
            else:
                combos += [(rng.choice(si), rng.choice(si)) for _ in range(6)]
            for ps, pd in combos:
                for mag in (mags if tier != "quick" else rng.sample(mags, 2) + [Decimal("36.6")]):
                    evals += 1
                    distinct.add((s, ps, d, pd))
                    try:
                        bad = c10_check(s, ps, d, pd, mag, ns)
                    except Exception as e:
                        bad = ["error: %s: %s" % (type(e).__name__, e)]
                    for msg in bad:
                        key = msg.split(":")[0] + (":prefixed-target" if pd else ":prefixed-source" if ps else "")
                        if sum(1 for f in failures if f["key"] == key) < 2:
                            failures.append({"key": key, "desc": "(%r * %s%s).in_unit(%s%s): %s" % (mag, ps + "*" if ps else "", s, pd + "*" if pd else "", d, msg),
                                             "args": [s, ps, d, pd, repr(mag)], "fn": "c10_check"})
            # absolute zero and order agreement
            for m1, m2 in ((0, 0), (100, 212), (-40, -40), (20.5, 70), (500, 100)):
                evals += 1
                try:
                    bad = c10_order(s, d, m1, m2, ns)
                except Exception as e:
                    bad = ["error: %s: %s" % (type(e).__name__, e)]
                for msg in bad:
                    key = msg.split(":")[0]
                    if sum(1 for f in failures if f["key"] == key) < 2:
                        failures.append({"key": key, "desc": "%s vs %s: %s" % (s, d, msg), "args": [s, d, repr(m1), repr(m2)], "fn": "c10_order"})
            if len(samples) < 5:
                samples.append("%s -> %s with %d prefix combinations" % (s, d, len(combos)))
    return {"evaluations": evals, "distinct": len(distinct), "failures": failures[:8], "samples": samples,
            "rule": "all 12 ordered pairs of kelvin/celsius/fahrenheit/rankine x (no prefix, every registered prefix on source, every registered prefix on target%s) x magnitudes "
                    "(int, float, Decimal, below absolute zero) against closed forms in exact rationals; round trips; order and equality across scales; "
                    "distinct = distinct (scale, prefix, scale, prefix)" % (", all prefix pairs" if tier != "quick" else ", 6 sampled prefix pairs"),
            "bound": "exhaustive over scale pairs and single prefixes", "exhaustive": tier != "quick"}


def replay_body(f):
    args = ", ".join(a if i == len(f["args"]) - 1 or (f["fn"] == "c10_order" and i >= 2) else repr(a) for i, a in enumerate(f["args"]))
    return "from decimal import Decimal\n" + CHECK + "bad = %s(%s, ns)\nprint(bad)\nsys.exit(1 if bad else 0)\n" % (f["fn"], args)
