"""C09 (ground, exhaustive): every redundant shipped declaration agrees with the sizes implied
by the other declarations within 1e-5 per exponent degree; no pair is declared twice with
different values; every named unit with a physical dimension converts to and from the coherent
SI unit of its dimension (checked by the C04 oracle)."""
from .common import namespace, pools, seed_rng

SI_BASE = ["Number", "Length", "Time", "Mass", "Temperature", "Charge", "AmountOfSubstance", "LuminousIntensity", "Information"]


def coherent_unit(dim, ns):
    import measured
    base = [measured.One, ns["Meter"], ns["Second"], ns["Kilogram"], ns["Kelvin"], ns["Coulomb"], ns["Mole"], ns["Candela"], ns["Bit"]]
    u = measured.One
    for e, b in zip(dim.exponents, base):
        if e and b is not measured.One:
            u = u * b ** e
    return u


def run(tier, seed):
    from . import oracle
    oracle.install()
    ns = namespace()
    import measured
    from measured.conversions import ConversionNotFound
    S = oracle.sizes()
    failures, samples, evals = [], [], 0
    # 1. redundant declarations (cycles of the definition graph)
    for mod, line, res, degree, text in S.redundant:
        evals += 1
        if res is None or res > 1e-5 * degree:
            key = "decl:%s:%d" % (mod.split(".")[-1], line)
            failures.append({"key": key, "desc": "%s line %d: %s disagrees with the other declarations (relative %s, tolerance %g)" %
                             (mod, line, text, "different units" if res is None else "%.3g" % float(res), 1e-5 * degree), "kind": "decl", "mod": mod, "line": line})
    for d in S.unresolved:
        failures.append({"key": "decl-unresolved:%s:%d" % (d[1].split(".")[-1], d[2]), "desc": "declaration %s line %d could not be related to sized units" % (d[1], d[2]), "kind": "decl", "mod": d[1], "line": d[2]})
    # 2. a pair declared twice with different ratios (silent overwrite)
    seen = {}
    for kind, mod, line, a, b in oracle.DECLS:
        if kind != "equate":
            continue
        ua, ub = a.unprefixed().unit, b.unprefixed().unit
        r = float(b.unprefixed().magnitude) / float(a.unprefixed().magnitude)
        k = (id(ua), id(ub))
        evals += 1
        if k in seen and abs(seen[k][0] / r - 1) > 1e-5:
            failures.append({"key": "overwrite:%s:%d" % (mod.split(".")[-1], line), "desc": "%s line %d re-declares %s -> %s as %r (was %r at line %d)" % (mod, line, ua, ub, r, seen[k][0], seen[k][1]),
                             "kind": "decl", "mod": mod, "line": line})
        seen[k] = (r, line)
    # 3. every named unit <-> coherent SI unit of its dimension
    units, _, _ = pools(ns)
    conn = 0
    for n in units:
        u = ns[n]
        if u is measured.One or u in S.scales or u.dimension is measured.Number:
            continue
        si = coherent_unit(u.dimension, ns)
        for a, b, an, bn in ((u, si, n, "SI"), (si, u, "SI", n)):
            evals += 1
            conn += 1
            want = oracle.expected_ratio(a, b)
            try:
                r = (1 * a).in_unit(b)
                deg = max(1, sum(abs(e) for e in si.factors.values()))
                if want is not None and abs(float(r.magnitude) / float(want) - 1) > 1e-5 * deg:
                    failures.append({"key": "si-value:%s" % n, "desc": "1 %s -> %s gives %r, declarations imply %r" % (an, bn, r.magnitude, float(want)), "kind": "si", "unit": n})
            except ConversionNotFound:
                failures.append({"key": "si-unreachable:%s" % n, "desc": "%s does not convert %s its coherent SI unit %s" % (n, "to" if a is u else "from", si), "kind": "si", "unit": n})
            except Exception as e:
                failures.append({"key": "si-error:%s" % n, "desc": "%s <-> SI raised %s: %s" % (n, type(e).__name__, e), "kind": "si", "unit": n})
        if len(samples) < 4:
            samples.append("%s <-> %s" % (n, si))
    seenk, uniq = set(), []
    for f in failures:
        if f["key"] not in seenk:
            seenk.add(f["key"])
            uniq.append(f)
    return {"evaluations": evals, "distinct": len(S.redundant) + conn, "failures": uniq[:12], "samples": samples + [r[4] for r in S.redundant[:3]],
            "exhaustive": True,
            "rule": "all %d intercepted declarations of the shipped modules: %d define a unit, %d are redundant edges (cycles) checked in exact arithmetic; "
                    "%d named-unit <-> coherent-SI conversions; distinct = redundant edges + SI conversions" % (len(oracle.DECLS), len(S.size), len(S.redundant), conn),
            "bound": "exhaustive over the shipped modules"}


def replay_body(f):
    return ("from native.p_c09 import run\nr = run('quick', 0)\nhits = [x for x in r['failures'] if x['key'] == %r]\nprint(hits)\nsys.exit(1 if hits else 0)\n" % f["key"])
