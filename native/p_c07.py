"""C07 stand-in (bounded): impossible conversions fail only with ConversionNotFound; comparisons
report False / TypeError; outcomes are identical under `python -O`."""
import json
import os
import subprocess
import sys
from .common import namespace, seed_rng


def outcomes(seed, n):
    """deterministic list of (case, outcome-string) for the seed; run in both interpreter modes"""
    from . import oracle
    oracle.install()
    ns = namespace()
    import measured
    from .convgen import Gen
    rng = seed_rng(seed, "C07")
    g = Gen(ns, rng)
    # synthetic units: unconnected, partially connected, defined in terms of products
    tag = "c07s%d" % seed
    def mk(dim, name):
        return measured.Unit._by_name.get(name) or measured.Unit.define(dim, name, name)
    ns["Lone"] = mk(measured.Length, tag + "lone")
    ns["Semi"] = mk(measured.Length, tag + "semi")
    ns["SemiT"] = mk(measured.Time, tag + "semit")
    ns["Prod"] = mk(measured.Energy, tag + "prod")
    if not getattr(outcomes, "_declared", False):
        ns["Prod"].equals(3 * ns["Semi"] * ns["Newton"])
        ns["SemiT"].equals(5 * ns["Second"])
        outcomes._declared = True
    extra = ["Lone", "Semi", "SemiT", "Prod"]
    # free-standing units of base and derived dimensions (no definition connects them to anything)
    for nm, dim in (("LoneT", measured.Time), ("LoneM", measured.Mass), ("Spd", measured.Speed), ("Frc", measured.Force), ("Prs", measured.Pressure), ("Ar", measured.Area),
                    ("Freq", measured.Frequency), ("Wav", measured.Length**-1), ("LT", measured.Length * measured.Time)):
        ns[nm] = mk(dim, tag + nm.lower())
    spell = {"L": ["Meter", "Lone", "Semi", "Foot"], "T": ["Second", "LoneT", "SemiT", "Hour"], "M": ["Kilogram", "LoneM", "Pound"],
             "V": ["Spd", "(Meter / Second)", "(Lone / LoneT)", "Knot", "(Semi / Second)"],
             "F": ["Frc", "Newton", "(Kilogram * Meter / Second**2)", "(LoneM * Lone / LoneT**2)", "PoundForce"],
             "P": ["Prs", "Pascal", "(Frc / Meter**2)", "(Newton / Lone**2)", "PSI"],
             "A": ["Ar", "(Meter**2)", "(Lone * Meter)", "Acre", "(Semi**2)"], "E": ["Prod", "Joule", "(Frc * Lone)", "(Newton * Semi)"],
             # units of inverse and mixed dimensions: a unit of T**-1 meets a unit of time in a denominator
             "Q": ["Freq", "Hertz", "(Second**-1)", "(LoneT**-1)", "(Hour**-1)"], "W": ["Wav", "(Meter**-1)", "(Lone**-1)"],
             "X": ["LT", "(Meter * Second)", "(Lone * LoneT)"]}

    def respell():
        """two expressions of one dimension, factor by factor in different spellings, optionally times U/V with dim U = dim V"""
        ks = [rng.choice(sorted(spell)) for _ in range(rng.choice([1, 2, 2, 3]))]
        es = [rng.choice([1, 1, -1, 2]) for _ in ks]
        def side():
            return "(" + " * ".join("%s**%d" % (rng.choice(spell[k]), e) if e != 1 else rng.choice(spell[k]) for k, e in zip(ks, es)) + ")"
        a, b = side(), side()
        if rng.random() < 0.5:
            k = rng.choice(sorted(spell))
            u, v = rng.sample(spell[k], 2)
            b = "(%s * %s / %s)" % (b, u, v)
        return (a, b) if rng.random() < 0.5 else (b, a)

    out = []
    for i in range(n):
        r0 = rng.random()
        if r0 < 0.3:
            a, b = respell()
        elif r0 < 0.55:
            # mix in the synthetic units: same shape, one factor replaced
            a, b = g.pair()
            u = rng.choice(extra)
            d = ns[u].dimension
            cands = g.bydim.get(d, [])
            if cands:
                v = rng.choice(cands)
                a, b = "(%s * %s**2)" % (a, u), "(%s * %s**2)" % (b, v)
        else:
            a, b = g.pair()
        op = rng.choice(["conv", "add", "sub", "eq", "lt", "sorted"])
        src = {"conv": "(2 * %s).in_unit(%s)" % (a, b), "add": "(2 * %s) + (3 * %s)" % (a, b), "sub": "(2 * %s) - (3 * %s)" % (a, b),
               "eq": "(2 * %s) == (3 * %s)" % (a, b), "lt": "(2 * %s) < (3 * %s)" % (a, b),
               "sorted": "sorted([2 * %s, 3 * %s, 1 * %s])" % (a, b, a)}[op]
        try:
            r = eval(src, ns)
            res = "value:" + (repr(r.magnitude) if hasattr(r, "magnitude") else repr(r) if not isinstance(r, list) else repr([q.magnitude for q in r]))
        except Exception as e:
            res = "raise:" + type(e).__name__
        out.append((op, src, res))
    return out


ALLOWED = {"conv": {"ConversionNotFound"}, "add": {"ConversionNotFound"}, "sub": {"ConversionNotFound"}, "eq": set(), "lt": {"TypeError"}, "sorted": {"TypeError"}}
TOLERATED = {"OverflowError"}  # float overflow of astronomically large ratios: recorded, not part of the C07 list


def run(tier, seed):
    n = 700 if tier == "quick" else 40000
    outs = outcomes(seed, n)
    failures, samples, distinct = [], [], set()
    for op, src, res in outs:
        distinct.add(src)
        if res.startswith("raise:"):
            exc = res[6:]
            if exc not in ALLOWED[op] and exc not in TOLERATED:
                key = "%s:%s" % (op, exc)
                if sum(1 for f in failures if f["key"] == key) < 2:
                    failures.append({"key": key, "desc": "%s raised %s" % (src, exc), "src": src, "seed": seed, "n": n, "mode": "exc"})
        if len(samples) < 5:
            samples.append("%s -> %s" % (src, res))
    # the same cases under python -O
    env = dict(os.environ)
    p = subprocess.run([sys.executable, "-O", "-c",
                        "import sys, json; sys.path.insert(0, %r); from native.p_c07 import outcomes; print(json.dumps(outcomes(%d, %d)))" % (os.path.dirname(os.path.dirname(os.path.abspath(__file__))), seed, n)],
                       capture_output=True, text=True, env=env)
    optimized = None
    try:
        optimized = json.loads(p.stdout.strip().splitlines()[-1])
    except Exception:
        failures.append({"key": "dash-O:harness", "desc": "could not run the cases under python -O: " + p.stderr[-300:], "src": "", "seed": seed, "n": n, "mode": "O"})
    ndiff = 0
    if optimized is not None:
        for (op, src, res), (op2, src2, res2) in zip(outs, optimized):
            if src != src2 or res != res2:
                ndiff += 1
                if ndiff <= 2:
                    failures.append({"key": "dash-O:differs", "desc": "%s gives %s by default and %s under -O" % (src, res, res2), "src": src, "seed": seed, "n": n, "mode": "O"})
    return {"evaluations": 2 * len(outs), "distinct": len(distinct), "failures": failures[:8], "samples": samples,
            "rule": "C04 pair space plus synthetic unconnected / partially connected / product-defined units and free-standing units of derived dimensions re-spelt factor by factor; in_unit + - == < sorted; every outcome recorded "
                    "under the default interpreter and under python -O and compared; distinct = distinct expressions", "bound": "%d cases x 2 modes" % n}


def replay_body(f):
    if f["mode"] == "exc":
        return ("from native.p_c07 import outcomes, ALLOWED, TOLERATED\nouts = outcomes(%d, %d)\n"
                "bad = [(op, s, r) for op, s, r in outs if r.startswith('raise:') and r[6:] not in ALLOWED[op] and r[6:] not in TOLERATED]\n"
                "print(bad[:5])\nsys.exit(1 if bad else 0)\n" % (f["seed"], f["n"]))
    return ("import subprocess, json\nfrom native.p_c07 import outcomes\na = outcomes(%d, %d)\n"
            "p = subprocess.run([sys.executable, '-O', '-c', 'import sys, json; sys.path.insert(0, \"/verif\"); from native.p_c07 import outcomes; print(json.dumps(outcomes(%d, %d)))'], capture_output=True, text=True)\n"
            "b = json.loads(p.stdout.strip().splitlines()[-1])\ndiff = [(x, y) for x, y in zip(a, b) if list(x) != list(y)]\nprint(diff[:3])\nsys.exit(1 if diff else 0)\n"
            % (f["seed"], f["n"], f["seed"], f["n"]))
