"""C03 stand-in (bounded): operator x operand-kind x dimension table on the real code.
Every case is (source, predicate): the predicate is evaluated on the outcome (result r or
exception exc) and is what the replay file re-evaluates."""
from decimal import Decimal
from .common import namespace, pools, seed_rng, shape_zoo

PRELUDE = '''
import measured
from decimal import Decimal
from measured.conversions import ConversionNotFound
def outcome(src, ns):
    try:
        return eval(src, ns), None
    except Exception as e:
        return None, e
def isq(r): return isinstance(r, measured.Quantity)
def dec(q): return isinstance(q.magnitude, Decimal)
def same(A, B): return A.unit.factors == B.unit.factors and A.unit.prefix.base in (0, B.unit.prefix.base) or A.unit.factors == B.unit.factors and B.unit.prefix.base == 0
def benign(exc): return isinstance(exc, (ZeroDivisionError, OverflowError, measured.FractionalDimensionError))
'''
exec(PRELUDE)

PREDS = {
    "mul": ("{qa} * {qb}", "benign(exc) or (isq(r) and r.unit.dimension is da * db and (dec(r) or not (dec(A) or dec(B))))"),
    "div": ("{qa} / {qb}", "benign(exc) or (isq(r) and r.unit.dimension is da / db and (dec(r) or not (dec(A) or dec(B))))"),
    "pow": ("{qa} ** {k}", "benign(exc) or (isq(r) and r.unit.dimension is da ** {k} and (dec(r) or not dec(A)))"),
    "root": ("(abs({qa}) ** {k2}).root({k2})", "benign(exc) or (isq(r) and r.unit.dimension is da and (dec(r) or not dec(A)))"),
    # same(): the two units differ by a prefix at most, so the operation cannot legitimately fail (whatever the magnitude types)
    "add": ("{qa} + {qb}", "(isq(r) and da is db and r.unit is A.unit) or (not same(A, B) and isinstance(exc, (ConversionNotFound, TypeError)))"),
    "sub": ("{qa} - {qb}", "(isq(r) and da is db and r.unit is A.unit) or (not same(A, B) and isinstance(exc, (ConversionNotFound, TypeError)))"),
    "lt": ("{qa} < {qb}", "(isinstance(r, bool) and da is db) or (not same(A, B) and isinstance(exc, TypeError))"),
    "eq": ("{qa} == {qb}", "exc is None and isinstance(r, bool) and (da is db or r is False)"),
    "conv": ("{qa}.in_unit({ub})", "(isq(r) and da is db and r.unit is B.unit) or (not same(A, B) and isinstance(exc, ConversionNotFound))"),
    "nmul": ("{mb} * {qa}", "benign(exc) or (isq(r) and r.unit.dimension is da and (dec(r) or not (dec(A) or dec(B))))"),
    "ndiv": ("{qa} / {mb}", "benign(exc) or (isq(r) and r.unit.dimension is da and (dec(r) or not (dec(A) or dec(B))))"),
    "rdiv": ("{mb} / {qa}", "benign(exc) or (isq(r) and r.unit.dimension is da ** -1)"),
    "umul": ("{qa} * {ub}", "benign(exc) or (isq(r) and r.unit.dimension is da * db)"),
    "udiv": ("{qa} / {ub}", "benign(exc) or (isq(r) and r.unit.dimension is da / db)"),
    "neg": ("-{qa}", "isq(r) and r.unit is A.unit and dec(r) == dec(A)"),
    # a bare unit on the LEFT of a quantity: either unsupported (TypeError) or a quantity of the product / quotient dimension
    "urmul": ("{ua} * {qb}", "isinstance(exc, TypeError) or benign(exc) or (isq(r) and r.unit.dimension is eval({ua!r}, globals()).dimension * db)"),
    "urdiv": ("{ua} / {qb}", "isinstance(exc, TypeError) or benign(exc) or (isq(r) and r.unit.dimension is eval({ua!r}, globals()).dimension / db)"),
    "abs": ("abs({qa})", "isq(r) and r.unit is A.unit and dec(r) == dec(A)"),
}


def evaluate(case, ns):
    env = dict(ns)
    exec(PRELUDE, env)
    env["A"], env["B"] = eval(case["qa"], ns), eval(case["qb"], ns)
    env["da"], env["db"] = env["A"].unit.dimension, env["B"].unit.dimension
    env["r"], env["exc"] = outcome(case["src"], ns)
    return bool(eval(case["pred"], env)), env["r"], env["exc"]


def run(tier, seed):
    ns = namespace()
    units, prefixes, _ = pools(ns)
    rng = seed_rng(seed, "C03")
    mags = ["2", "2.5", "Decimal('2.5')", "-3", "0.5", "Decimal('-4')"]
    n = 300 if tier == "quick" else 20000
    failures, samples, evals, distinct = [], [], 0, set()

    zoo = shape_zoo(ns)

    def unit_expr():
        if rng.random() < 0.3:
            return "(%s)" % rng.choice(zoo)  # zoo shapes are not all parenthesised: "x / (a)/b" would not divide by the shape
        parts = []
        for _ in range(rng.choice([1, 1, 2, 3])):
            u = rng.choice(units)
            if rng.random() < 0.25:
                u = "(%s*%s)" % (rng.choice(prefixes), u)
            e = rng.choice([-2, -1, 1, 1, 2, 3])
            parts.append(u if e == 1 else "%s**%d" % (u, e))
        return "(" + "*".join(parts) + ")"

    while evals < n and len(failures) < 40:
        ua, ub = unit_expr(), (unit_expr() if rng.random() < 0.7 else None)
        if ub is None:
            ub = ua if rng.random() < 0.4 else "(%s*%s)" % (rng.choice(prefixes), ua)
            if rng.random() < 0.4 and not ua.startswith("((") and not ua.startswith("(1"):
                ua = "(%s*%s)" % (rng.choice(prefixes), ua)
        ma, mb = rng.choice(mags), rng.choice(mags)
        op = rng.choice(sorted(PREDS))
        fmt = dict(qa="(%s*%s)" % (ma, ua), qb="(%s*%s)" % (mb, ub), ua=ua, ub=ub, ma=ma, mb=mb, k=rng.choice([-2, -1, 2, 3]), k2=rng.choice([2, 3]))
        case = {"op": op, "qa": fmt["qa"], "qb": fmt["qb"], "src": PREDS[op][0].format(**fmt), "pred": PREDS[op][1].format(**fmt)}
        ok, r, exc = evaluate(case, ns)
        evals += 1
        distinct.add((op, ma, mb, ua.count("*"), ub.count("*")))
        if not ok:
            case["key"] = "%s:%s" % (op, type(exc).__name__ if exc is not None else "wrong-result")
            case["desc"] = "%s -> %s violates: %s" % (case["src"], repr(exc) if exc is not None else repr(r), case["pred"])
            if sum(1 for f in failures if f["key"] == case["key"]) < 2:
                failures.append(case)
        if len(samples) < 5:
            samples.append(case["src"])
    # the result type must not depend on which numerically equal operand was seen first in the process
    from decimal import Decimal
    for k in (2, 3):
        for base in (16, 27, 6.25, 2):
            for first, second in ((float, Decimal), (int, Decimal), (Decimal, float)):
                try:
                    x1, x2 = first(base), second(str(base)) if second is Decimal else second(base)
                except Exception:
                    continue
                u = eval("Meter", ns)
                for op in ("root", "pow", "mul", "div"):
                    evals += 1
                    f = {"root": lambda q: (q ** k).root(k), "pow": lambda q: q ** k, "mul": lambda q: q * (2 * u), "div": lambda q: q / (2 * u)}[op]
                    try:
                        f(x1 * u)
                        r2 = f(x2 * u)
                    except Exception:
                        continue
                    if isinstance(x2, Decimal) and not isinstance(r2.magnitude, Decimal):
                        case = {"op": "order-" + op, "qa": "(%r * Meter)" % x2, "qb": "(1 * Meter)",
                                "src": "[(lambda q: %s)(x * Meter) for x in (%s(%r), Decimal(%r))][1]" % (
                                    {"root": "(q ** %d).root(%d)" % (k, k), "pow": "q ** %d" % k, "mul": "q * (2 * Meter)", "div": "q / (2 * Meter)"}[op], first.__name__, base, str(base)),
                                "pred": "isq(r) and dec(r)", "key": "order-%s:not-decimal" % op,
                                "desc": "%s of a Decimal quantity is %r after the same operation on the equal %s" % (op, r2.magnitude, first.__name__)}
                        if sum(1 for f_ in failures if f_["key"] == case["key"]) < 2:
                            failures.append(case)
    return {"evaluations": evals, "distinct": len(distinct), "failures": failures[:12], "samples": samples,
            "rule": "random pairs of quantities (int/float/Decimal magnitudes, compound prefixed units, equal and different dimensions) x 15 "
                    "operator shapes; distinct = distinct (operator, magnitude kinds, unit shapes)", "bound": "%d cases" % n}


def replay_body(f):
    case = {k: f[k] for k in ("op", "qa", "qb", "src", "pred")}
    return ("from native.p_c03 import evaluate\ncase = %r\nok, r, exc = evaluate(case, ns)\n"
            "print(case['src'], '->', repr(r) if exc is None else repr(exc))\nprint('required:', case['pred'])\nsys.exit(0 if ok else 1)\n" % (case,))
