"""C11 stand-in (bounded, exhaustive over registered prefixes): a prefixed unit means prefix
factor times unit."""
from fractions import Fraction
from .common import namespace, pools, seed_rng


def run(tier, seed):
    ns = namespace()
    import measured
    units, prefixes, _ = pools(ns)
    rng = seed_rng(seed, "C11")
    failures, samples, evals, distinct = [], [], 0, set()
    exps = [-4, -3, -2, -1, 1, 2, 3, 4]
    unit_sample = units if tier != "quick" else rng.sample(units, 12)

    def _close(a, b):
        return a.unit is b.unit and abs(float(a.magnitude) / float(b.magnitude) - 1) < 1e-9
    ns["_close"] = _close

    def pv(p):
        return Fraction(ns[p].base) ** ns[p].exponent if ns[p].base else Fraction(1)

    def check(key, src, pred_src):
        nonlocal evals
        evals += 1
        distinct.add(key + src[:40])
        try:
            ok = bool(eval(pred_src, ns))
        except Exception as e:
            ok = False
            pred_src = pred_src + "  # raised %s: %s" % (type(e).__name__, e)
        if not ok and sum(1 for f in failures if f["key"] == key) < 2:
            failures.append({"key": key, "desc": "violated: " + pred_src, "pred": pred_src.split("  #")[0]})
        if len(samples) < 6:
            samples.append(pred_src)

    for p in prefixes:
        for u in unit_sample:
            check("value", p + u, "_close((3 * (%s * %s)).unprefixed(), ((3 * %s.quantify()) * %s).unprefixed())" % (p, u, p, u))
            check("unprefixed", p + u, "_close((5 * (%s * %s)).unprefixed(), (5 * %s.quantify()) * (%s).quantify())" % (p, u, p, u))
            n = rng.choice(exps)
            if ns[u].prefix.base in (0, ns[p].base):
                check("power", p + u, "(%s * %s) ** %d is %s ** %d * %s ** %d" % (p, u, n, p, n, u, n))
            else:
                check("power-mixed", p + u, "_close((1 * (%s * %s) ** %d).unprefixed(), (1 * (%s ** %d * %s ** %d)).unprefixed())" % (p, u, n, p, n, u, n))
            check("divide", p + u, "_close(((6 * %s) / (2 * (%s * %s))).unprefixed(), (3 / %s.quantify()) * One)" % (u, p, u, p))
            # roots undo powers together with the prefix: ((p*u)**n).root(n) is p*u, also for n = 1 and negative n
            m = rng.choice([1, 2, 3, -2])
            if ns[u].prefix.base in (0, ns[p].base):
                check("root-of-power", p + u, "((%s * %s) ** %d).root(%d) is (%s * %s)" % (p, u, m, m, p, u))
                check("root-one", p + u, "(%s * %s).root(1) is (%s * %s)" % (p, u, p, u))
    # converting INTO a prefixed unit is converting into the bare unit and dividing by the prefix value, whatever the planner does with the unit
    # (1e-3: the prefixed and the bare request may take different declared routes, which agree to 1e-5 only; a lost prefix is a factor >= 2)
    targets = [t for t in ("Liter", "Calorie", "Hectare", "Horsepower", "Acre", "Gallon", "PSI", "Newton", "Meter", "Joule", "Celsius", "Kelvin", "Fahrenheit") if t in ns]
    sources = {"Liter": "Gallon", "Calorie": "Joule", "Hectare": "Acre", "Horsepower": "Watt", "Acre": "Hectare", "Gallon": "Liter", "PSI": "Pascal", "Newton": "PoundForce",
               "Meter": "Foot", "Joule": "Calorie", "Celsius": "Kelvin", "Kelvin": "Fahrenheit", "Fahrenheit": "Rankine"}
    for p in (prefixes if tier != "quick" else rng.sample(prefixes, 6)):
        for t in targets:
            srcu = sources[t]
            if srcu not in ns:
                continue
            check("prefixed-target", p + t, "abs(float((3 * %s).in_unit(%s * %s).magnitude) * float(%s.quantify()) / float((3 * %s).in_unit(%s).magnitude) - 1) < 1e-3" % (srcu, p, t, p, srcu, t))
            # m * (p*u) is (m * value(p)) * u BEFORE anything else happens to it (offsets of temperature scales included)
            check("prefixed-source", p + t, "abs(float((3 * (%s * %s)).in_unit(%s).magnitude) - float(((3 * %s.quantify()) * %s).in_unit(%s).magnitude)) <= 1e-3 * max(1.0, abs(float(((3 * %s.quantify()) * %s).in_unit(%s).magnitude)))" % (p, srcu, t, p, srcu, t, p, srcu, t))
    for p in []:
        for u in []:
            pass
    # a prefixed dimensionless unit (p*One, or the leftover of a cancelled quotient) is still a prefix factor
    for p in prefixes:
        for u in unit_sample[:6]:
            check("dimensionless-right-mul", p + u, "_close(((2 * %s) * (%s * One)).unprefixed(), ((2 * %s.quantify()) * %s).unprefixed())" % (u, p, p, u))
            check("dimensionless-right-div", p + u, "_close(((6 * %s) / (%s * One)).unprefixed(), ((6 / %s.quantify()) * %s).unprefixed())" % (u, p, p, u))
            check("cancelled-quotient", p + u, "_close(((2 * %s) * ((3 * (%s * %s)) / (1 * %s))).unprefixed(), ((6 * %s.quantify()) * %s).unprefixed())" % (u, p, u, u, p, u))
    # the same unit under a binary and under a decimal prefix: converting between the two only exchanges the prefix values
    si_, iec_ = [p for p in prefixes if ns[p].base == 10], [p for p in prefixes if ns[p].base == 2]
    for p in (iec_ if tier != "quick" else rng.sample(iec_, min(4, len(iec_)))):
        for q in (si_ if tier != "quick" else rng.sample(si_, min(5, len(si_)))):
            for u in ("Bit", "Meter", "Byte", "Second"):
                if u not in ns:
                    continue
                want = 3 * float(pv(p)) / float(pv(q))
                check("cross-base-conversion", p + q + u, "abs(float((3 * (%s * %s)).in_unit(%s * %s).magnitude) / %r - 1) < 1e-9" % (p, u, q, u, want))
                check("cross-base-conversion", q + p + u, "abs(float((3 * (%s * %s)).in_unit(%s * %s).magnitude) / %r - 1) < 1e-9" % (q, u, p, u, 9 / want))
                check("cross-base-sum", p + q + u, "abs(float(((3 * (%s * %s)) + (3 * (%s * %s))).unprefixed().magnitude) / (float((3 * (%s * %s)).unprefixed().magnitude) + float((3 * (%s * %s)).unprefixed().magnitude)) - 1) < 1e-9" % (p, u, q, u, p, u, q, u))
    same = {}
    for p in prefixes:
        same.setdefault(ns[p].base, []).append(p)
    for base, ps in same.items():
        for p in ps:
            for q in ps:
                check("product", p + q, "(%s * %s) is measured.Prefix(%d, %s.exponent + %s.exponent)" % (p, q, base, p, q))
                check("product-exact", p + q, "type((%s * %s).exponent) is int and type((%s / %s).exponent) is int and (7 * ((%s * %s) * Meter)).unprefixed().magnitude == 7 * %d ** (%s.exponent + %s.exponent)"
                      % (p, q, p, q, p, q, base, p, q) if ns[p].exponent + ns[q].exponent >= 0 else "type((%s * %s).exponent) is int and type((%s / %s).exponent) is int" % (p, q, p, q))
                check("quotient", p + q, "(%s / %s) is measured.Prefix(%d, %s.exponent - %s.exponent)" % (p, q, base, p, q))
            check("identity", p, "%s * IdentityPrefix is %s and IdentityPrefix * %s is %s" % (p, p, p, p))
            for n in exps:
                check("prefix-power", p, "(%s ** %d) is measured.Prefix(%d, %s.exponent * %d) and (%s ** %d).root(%d) is %s" % (p, n, base, p, n, p, n, n, p))
    # mixed bases within 1e-9
    bases = sorted(same)
    if len(bases) > 1:
        for p in same[bases[0]]:
            for q in same[bases[1]]:
                for e in (exps if tier != "quick" else [-2, 1, 3]):
                    want = pv(p) * pv(q) ** e
                    check("mixed", p + q, "abs(float((%s * %s ** %d).quantify()) / %r - 1) < 1e-9" % (p, q, e, float(want)))
                    check("mixed-value", p + q, "abs((1 * (%s * (%s ** %d * Meter))).unprefixed().magnitude / %r - 1) < 1e-9" % (p, q, e, float(want)))
    return {"evaluations": evals, "distinct": len(distinct), "failures": failures[:8], "samples": samples,
            "rule": "all %d registered prefixes x %d units (value, unprefixed, power, divide), all same-base prefix pairs (product, quotient), "
                    "powers/roots with exponents in [-4,4], all mixed SI x IEC pairs within 1e-9; distinct = distinct (law, operands)" % (len(prefixes), len(unit_sample)),
            "bound": "exhaustive over registered prefixes; units %s" % ("all" if tier != "quick" else "12 sampled")}


def replay_body(f):
    return "import measured\nns['measured'] = measured\nns['_close'] = lambda a, b: a.unit is b.unit and abs(float(a.magnitude) / float(b.magnitude) - 1) < 1e-9\nok = bool(eval(%r, ns))\nprint(%r, '->', ok)\nsys.exit(0 if ok else 1)\n" % (f["pred"], f["pred"])
