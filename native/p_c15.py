"""C15 (ground over every registered object, bounded for compounds): pickle, copy, deepcopy and the
JSON encoding round-trip every value, preserving singleton identity."""
import copy
import json
import pickle
from decimal import Decimal
from .common import namespace, pools, seed_rng

CHECK = '''
import copy, json, pickle
from decimal import Decimal
def c15_check(src, ns):
    import measured
    from measured.json import MeasuredJSONEncoder, MeasuredJSONDecoder
    x = eval(src, ns)
    bad = []
    snap = (getattr(x, "names", None), getattr(x, "symbols", None), getattr(x, "name", None), getattr(x, "symbol", None))
    codecs = {"pickle": lambda v: pickle.loads(pickle.dumps(v)), "copy": copy.copy, "deepcopy": copy.deepcopy,
              "json": lambda v: json.loads(json.dumps(v, cls=MeasuredJSONEncoder), cls=MeasuredJSONDecoder)}
    def installed(v):
        # the other documented JSON route: the codecs installed as the json module's defaults
        from measured.json import codecs_installed
        with codecs_installed():
            return json.loads(json.dumps(v))
    codecs["json-installed"] = installed
    for name, f in codecs.items():
        try:
            y = f(x)
        except Exception as e:
            bad.append("%s: raised %s: %s" % (name, type(e).__name__, str(e)[:80]))
            continue
        if isinstance(x, measured.Quantity):
            ok = isinstance(y, measured.Quantity) and type(y.magnitude) is type(x.magnitude) and (y.magnitude == x.magnitude or (x.magnitude != x.magnitude))
            if not name.startswith("json"):
                ok = ok and y.unit is x.unit
            else:
                try: ok = ok and (y.unit is x.unit or y == x or (y.unit.dimension is x.unit.dimension and abs(float(y.in_unit(x.unit).magnitude) - float(x.magnitude)) <= 1e-9 * abs(float(x.magnitude))))
                except Exception: ok = False
            if not ok: bad.append("%s: %r came back as %r" % (name, x, y))
        else:
            if y is not x: bad.append("%s: %r came back as a different object %r" % (name, x, y))
    now = (getattr(x, "names", None), getattr(x, "symbols", None), getattr(x, "name", None), getattr(x, "symbol", None))
    if now != snap: bad.append("names: names/symbols changed from %r to %r" % (snap, now))
    return bad
'''
exec(CHECK)


def run(tier, seed):
    ns = namespace()
    import measured
    units, prefixes, dims = pools(ns)
    rng = seed_rng(seed, "C15")
    failures, samples, evals, distinct = [], [], 0, set()
    srcs = list(units) + list(prefixes) + list(dims) + ["IdentityPrefix"]
    n = 200 if tier == "quick" else 10000
    for _ in range(n):
        parts = []
        for _ in range(rng.choice([1, 2, 3])):
            u = rng.choice(units)
            if rng.random() < 0.3:
                u = "(%s*%s)" % (rng.choice(prefixes), u)
            e = rng.choice([-2, -1, 1, 1, 2, 3])
            parts.append(u if e == 1 else "%s**%d" % (u, e))
        us = "(" + " * ".join(parts) + ")"
        srcs.append(us)
        srcs.append("(%s * %s)" % (rng.choice(["5", "2.5", "Decimal('1.25')", "-3", "0", "2**53", "(-(2**53)-1)", "2**63", "10**30", "1e300", "float(2**60)", "-0.0",
                                                  "Decimal('1E+40')", "Decimal('0.000')", "1e-320", "(7*10**400)", "float('inf')", "(-float('inf'))"]), us))
    for i, u in enumerate(["Meter", "(Kilo*Meter)", "Hertz", "(Meter / Second)"]):
        for first, second in (("%d", "%d.0"), ("%d.0", "%d"), ("%d", "Decimal('%d')"), ("Decimal('%d')", "%d.0")):
            n_ = 40 + 7 * i + len(srcs) % 5
            srcs.append("(%s * %s)" % (first % n_, u))
            srcs.append("(%s * %s)" % (second % n_, u))
    for src in srcs:
        evals += 1
        distinct.add(src)
        try:
            bad = c15_check(src, ns)
        except Exception as e:
            bad = ["error: %s: %s" % (type(e).__name__, e)]
        for msg in bad:
            key = msg.split(":")[0]
            x = eval(src, ns)
            if key in ("json", "json-installed") and isinstance(x, measured.Quantity):
                from .p_c13 import c13_unit, classify
                m = c13_unit(src.split(" * ", 1)[1][:-1], ns)
                if m:
                    key = "known-c13:" + classify(m, src.split(" * ", 1)[1][:-1], ns)
            if sum(1 for f in failures if f["key"] == key) < 2:
                failures.append({"key": key, "desc": "%s: %s" % (src, msg), "src": src})
        if len(samples) < 4:
            samples.append(src)
    return {"evaluations": evals * 5, "distinct": len(distinct), "failures": failures[:12], "samples": samples,
            "rule": "every registered unit, prefix and dimension (ground) plus random compound/prefixed units and quantities (int, float, Decimal) x {pickle, copy, "
                    "deepcopy, JSON with explicit encoder/decoder, JSON with the codecs installed}; identity for interned objects, equal magnitude and type for quantities; distinct = distinct values", "bound": "%d values x 5 codecs" % len(srcs)}


def replay_body(f):
    return CHECK + "bad = c15_check(%r, ns)\nprint(bad)\nsys.exit(1 if bad else 0)\n" % (f["src"],)
