"""C12 stand-in (bounded): comparisons are coherent."""
import itertools
from decimal import Decimal
from .common import namespace, seed_rng

CHECK = '''
def c12_check(kind, items, ns):
    """items: list of source expressions of quantities / measurements / levels; returns violations"""
    import measured
    vals = [eval(s, ns) for s in items]
    bad = []
    def cmp(f):
        try: return f()
        except TypeError: return "TypeError"
    if kind == "pair":
        a, b = vals
        if (a == a) is not True: bad.append("reflexive: %s == itself is %r" % (items[0], a == a))
        noise = False
        if isinstance(a, measured.Quantity) and isinstance(b, measured.Quantity):
            # two quantities whose values differ by the rounding noise of the conversion only (below 1e-9 relative): a floating-point tie
            try:
                av_, bv_ = float(a.in_unit(b.unit).magnitude), float(b.magnitude)
                noise = abs(av_ - bv_) <= 1e-9 * max(abs(av_), abs(bv_)) and not ((a == b) and (b == a))
            except Exception:
                pass
        if (a == b) != (b == a) and not noise: bad.append("symmetric: (%s == %s) is %r but the reverse is %r" % (items[0], items[1], a == b, b == a))
        if isinstance(a, measured.Quantity) and isinstance(b, measured.Quantity):
            lt, gt, eq = cmp(lambda: a < b), cmp(lambda: a > b), a == b
            # "away from floating-point ties": two quantities whose values differ by rounding noise of the conversion only
            # (below 1e-9 relative, not recognised as equal) are a tie; the order laws are not claimed there
            tie = False
            try:
                av, bv = float(a.in_unit(b.unit).magnitude), float(b.magnitude)
                tie = (not eq) and abs(av - bv) <= 1e-9 * max(abs(av), abs(bv))
            except Exception:
                pass
            if "TypeError" not in (lt, gt) and not tie:
                if [lt, eq, gt].count(True) != 1: bad.append("trichotomy: < == > are %r %r %r for %s, %s" % (lt, eq, gt, items[0], items[1]))
                if cmp(lambda: a <= b) != cmp(lambda: b >= a): bad.append("mirror: (a <= b) != (b >= a)")
            if eq and hash(a) != hash(b):
                # equal quantities written in ONE unit (1, 1.0, Decimal('1')) have a key of their own: the recorded finding is about different units
                bad.append("%s: %s == %s but the hashes differ" % ("same-unit-hash" if a.unit is b.unit else "hash", items[0], items[1]))
            if a != b and eq: bad.append("ne: %s == %s and != are both True" % (items[0], items[1]))
            if not eq and not (a != b): bad.append("ne: %s == %s and != are both False" % (items[0], items[1]))
    elif kind == "sort":
        from native import oracle
        S = oracle.sizes()
        def si(q):
            return float(q.magnitude) * float(S.unit_mono(q.unit).coef)
        try:
            out = sorted(vals)
        except TypeError:
            return bad
        keys = [si(q) for q in out]
        if any(keys[i] > keys[i + 1] * (1 + 1e-9) + 1e-300 for i in range(len(keys) - 1)):
            bad.append("sort: sorted(%r) is not in physical order: %r" % (items, keys))
    return bad
'''
exec(CHECK)


def run(tier, seed):
    from . import oracle
    oracle.install()
    ns = namespace()
    import measured
    from .convgen import Gen
    rng = seed_rng(seed, "C12")
    g = Gen(ns, rng)
    ns["dBW"] = measured.Decibel[1 * ns["Watt"]]
    ns["dBm"] = measured.Decibel[1 * ns["Milli"] * ns["Watt"]]
    n = 500 if tier == "quick" else 30000
    failures, samples, evals, distinct = [], [], 0, set()
    mags = ["1", "2", "2.5", "1000", "0.001", "Decimal('2.5')", "-3"]
    # ground pass: every named unit the oracle can size exactly is ordered against its size written in the oracle's anchor units, 1 % above and
    # 1 % below (the order must be the physical one whichever route the conversion takes through the declarations)
    S = oracle.sizes()
    from .common import pools
    from .p_c04 import classify as _classify
    by_obj = {}
    for k_, v_ in ns.items():
        if isinstance(v_, measured.Unit) and k_.isidentifier():
            by_obj.setdefault(id(v_), k_)
    for uname in sorted(pools(ns)[0]):
        u_ = ns.get(uname)
        if not isinstance(u_, measured.Unit) or u_ in S.scales:
            continue
        mono = S.unit_mono(u_)
        if mono is None or not mono.exps or any(id(a_) not in by_obj for a_ in mono.exps) or (len(mono.exps) == 1 and u_ in mono.exps):
            continue
        coef = float(mono.coef)
        if not (1e-30 < coef < 1e30):
            continue
        tgt = "(" + " * ".join("%s**%d" % (by_obj[id(a_)], e_) for a_, e_ in sorted(mono.exps.items(), key=lambda kv: by_obj[id(kv[0])])) + ")"
        try:
            if _classify(uname, tgt, "WRONG", "relative error 1", ns) != "wrong-value":
                continue
            items = ["(%r * %s)" % (coef * 1.01, tgt), "(1 * %s)" % uname, "(%r * %s)" % (coef * 0.99, tgt)]
            bad = c12_check("sort", items, ns)
        except measured.conversions.ConversionNotFound:
            bad = []
        except Exception as e:
            bad = ["error: %s: %s" % (type(e).__name__, e)]
        evals += 1
        distinct.add(tuple(items))
        for msg in bad:
            key = msg.split(":")[0] + ":ground"
            if sum(1 for f in failures if f["key"] == key) < 2:
                failures.append({"key": key, "desc": msg, "kind": "sort", "items": items})
    n += evals
    while evals < n and len([f for f in failures if not f["key"].startswith("hash")]) < 4:
        kind = rng.choice(["q", "q", "m", "m", "level", "sort", "same"])
        if kind == "same" and rng.random() < 0.5:
            # the same quantity written in two different base units with an exact integer ratio (1 ft and 12 in)
            u, v, ratio = rng.choice([("Foot", "Inch", 12), ("Yard", "Foot", 3), ("Hour", "Minute", 60), ("Minute", "Second", 60), ("Kilogram", "Gram", 1000),
                                      ("Mile", "Foot", 5280), ("Pound", "Ounce", 16), ("Gallon", "Quart", 4)])
            m_ = rng.choice([1, 2, 3, 10, 7])
            items = ["(%d * %s)" % (m_, u), "(%d * %s)" % (m_ * ratio, v)]
            if u not in ns or v not in ns:
                continue
            k = "pair"
        elif kind == "same":
            # numerically equal magnitudes of different types in one unit
            a, _ = g.pair()
            v = rng.choice([1, 2, 1000, -3, 0])
            forms = ["%d" % v, "%d.0" % v, "Decimal('%d')" % v, "Decimal('%d.00')" % v]
            items = ["(%s * %s)" % (f_, a) for f_ in rng.sample(forms, 2)]
            k = "pair"
        elif kind == "q":
            a, b = g.pair()
            from .p_c04 import classify as _cls
            if _cls(a, b, "WRONG", "relative error 1", ns) != "wrong-value":
                continue  # the recorded conversion findings (dimensionless units in denominators / of different kinds, ton of refrigeration): a wrong conversion orders wrongly too
            m = rng.choice(mags)
            items = ["(%s * %s)" % (m, a), "(%s * %s)" % (rng.choice(mags), b)]
            if rng.random() < 0.4 and "Decimal" not in m:
                # physically equal quantities in different units/prefixes
                p = rng.choice(g.prefixes)
                items = ["(%s * %s)" % (m, a), "((%s / %s.quantify()) * (%s * %s))" % (m, p, p, a)]
            k = "pair"
        elif kind == "m":
            u, v = rng.choice([("Meter", "Meter"), ("Meter", "Foot"), ("Second", "Minute"), ("Meter", "(Kilo*Meter)"), ("Meter", "Second")])
            x, y = rng.choice([4.5, 5, 0, -2]), rng.choice([5, 4.9, 100, 0])
            items = ["Measurement(%r * %s, %r)" % (x, u, rng.choice([0, 0.5, 5])), rng.choice(["Measurement(%r * %s, %r)" % (y, v, rng.choice([0, 0.5, 5])),
                                                                                                "(%r * %s)" % (y, v), "approximately(%r * %s, 0.1)" % (y, v)])]
            k = "pair"
        elif kind == "level":
            items = ["(%r * %s)" % (rng.choice([0, 3, 20, 30, -10]), rng.choice(["dBW", "dBm"])),
                     rng.choice(["(%r * Watt)" % rng.choice([1, 100, 0.001, 2]), "(%r * %s)" % (rng.choice([0, 30, 20]), rng.choice(["dBW", "dBm"])),
                                 "Measurement(%r * Watt, 0.5)" % rng.choice([1, 100])])]
            k = "pair"
        else:
            a, b = g.pair()
            if oracle.expected_ratio(eval(a, ns), eval(b, ns)) is None:
                continue
            from .p_c04 import classify
            if classify(a, b, "WRONG", "relative error 1", ns) != "wrong-value":
                continue  # the recorded conversion findings (dimensionless units, ton of refrigeration) and float-range shapes
            items = ["(%s * %s)" % (rng.choice(mags[:5]), rng.choice([a, b])) for _ in range(4)]
            k = "sort"
        try:
            bad = c12_check(k, items, ns)
        except measured.conversions.ConversionNotFound:
            bad = []
        except Exception as e:
            bad = ["error: %s: %s" % (type(e).__name__, e)]
        evals += 1
        distinct.add(tuple(items))
        for msg in bad:
            key = msg.split(":")[0] + (":" + kind if msg.split(":")[0] != "hash" else "")
            if sum(1 for f in failures if f["key"] == key) < 2:
                failures.append({"key": key, "desc": msg, "kind": k, "items": items})
        if len(samples) < 4:
            samples.append(items)
    return {"evaluations": evals, "distinct": len(distinct), "failures": failures, "samples": samples,
            "rule": "ground: every named unit with an exact oracle size sorted against 1.01x and 0.99x that size in anchor units; then pairs of quantities from the C04 space (incl. physically equal re-expressions), measurement/quantity/approximately pairs, level/quantity/"
                    "measurement pairs, 4-element mixed-unit sorts; reflexive, symmetric, trichotomy, <=/>= mirror, eq => equal hash, physical sort order; "
                    "distinct = distinct operand tuples", "bound": "%d cases" % n}


def replay_body(f):
    return ("import measured\nfrom measured import Measurement, approximately\nfrom decimal import Decimal\nfrom native import oracle\noracle.install()\n"
            "from native.common import namespace\nns = namespace()\nns['dBW'] = measured.Decibel[1 * ns['Watt']]\nns['dBm'] = measured.Decibel[1 * ns['Milli'] * ns['Watt']]\n"
            + CHECK + "bad = c12_check(%r, %r, ns)\nprint(bad)\nsys.exit(1 if bad else 0)\n" % (f["kind"], f["items"]))
