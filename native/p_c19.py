"""C19 stand-in (bounded): orders of anonymous construction and naming, failing definition
calls in every argument position (registry snapshots before/after), registry faithfulness of
everything declared by the shipped modules."""
from .common import namespace, pools, seed_rng

SNAP = '''
def snapshot():
    import measured
    U, P, D = measured.Unit, measured.Prefix, measured.Dimension
    return (dict(U._by_name), dict(U._by_symbol), len(U._known), len(U._base), {id(u): (u.names, u.symbols) for u in U._known.values()},
            dict(P._by_name), dict(P._by_symbol), {id(p): (p.name, p.symbol) for p in P._known.values() if p._initialized and (p.name or p.symbol)},
            dict(D._by_name), {id(d): (d.name, d.symbol) for d in D._known.values() if d.name})
def faithful():
    import measured
    U, P, D = measured.Unit, measured.Prefix, measured.Dimension
    bad = []
    for n, u in U._by_name.items():
        if n not in u.names: bad.append("unit name %r bound to %r which does not report it" % (n, u))
    for s, u in U._by_symbol.items():
        if s not in u.symbols: bad.append("unit symbol %r bound to %r which does not report it" % (s, u))
    for u in U._known.values():
        for n in u.names:
            if U._by_name.get(n) is not u: bad.append("unit %r reports name %r bound elsewhere" % (u, n))
        for s in u.symbols:
            if U._by_symbol.get(s) is not u: bad.append("unit %r reports symbol %r bound elsewhere" % (u, s))
    for n, p in P._by_name.items():
        if p.name != n: bad.append("prefix name %r bound to a prefix named %r" % (n, p.name))
    for s, p in P._by_symbol.items():
        if p.symbol != s: bad.append("prefix symbol %r bound to a prefix with symbol %r" % (s, p.symbol))
    for p in P._known.values():
        if p._initialized and p.name and P._by_name.get(p.name) is not p: bad.append("prefix %r reports name %r bound elsewhere" % (p, p.name))
        if p._initialized and p.symbol and P._by_symbol.get(p.symbol) is not p: bad.append("prefix %r reports symbol %r bound elsewhere" % (p, p.symbol))
    for n, d in D._by_name.items():
        if d.name != n: bad.append("dimension name %r bound to a dimension named %r" % (n, d.name))
    for s, p in P._by_symbol.items():
        try:
            r = P.resolve_symbol(s)
        except Exception as e:
            r = type(e).__name__
        if r is not p: bad.append("prefix symbol %r resolves to %s, not to the prefix registered under it" % (s, str(r)[:60]))
    # looking a registered name or symbol up returns the object registered under it
    for table, what in ((U._by_symbol, "symbol"), (U._by_name, "name")):
        for k, u in table.items():
            if what == "name" and k in U._by_symbol:
                continue  # an exact symbol wins over a name spelt the same
            try:
                r = U.resolve_symbol(k)
            except Exception as e:
                r = "%s" % type(e).__name__
            if r is not u: bad.append("unit %s %r resolves to %s, not to the unit registered under it" % (what, k, str(r)[:60]))
            if what == "name":
                try:
                    if U.named(k) is not u: bad.append("Unit.named(%r) is not the unit registered under that name" % k)
                except Exception as e:
                    bad.append("Unit.named(%r) raised %s" % (k, type(e).__name__))
    return bad
'''
exec(SNAP)

# every shipped declaration `X = Prefix(b, e, name=..., symbol=...)` must be visible by name and symbol
DECLARED = '''
def declared_prefixes_bound():
    import ast, measured, os
    bad = []
    pkg = os.path.dirname(measured.__file__)
    for fn in sorted(os.listdir(pkg)):
        if not fn.endswith(".py") or fn == "_parser.py": continue
        for node in ast.walk(ast.parse(open(os.path.join(pkg, fn), encoding="utf-8").read())):
            if isinstance(node, ast.Call) and getattr(node.func, "id", None) == "Prefix":
                kw = {k.arg: k.value.value for k in node.keywords if isinstance(k.value, ast.Constant)}
                if "name" in kw:
                    try:
                        __import__("measured." + fn[:-3])
                    except Exception:
                        continue
                    b, e = node.args[0].value, ast.literal_eval(node.args[1])
                    p = measured.Prefix(b, e)
                    if measured.Prefix._by_name.get(kw["name"]) is not p or p.name != kw["name"]:
                        bad.append("%s: prefix %r is not bound to / reported by Prefix(%r, %r)" % (fn, kw["name"], b, e))
                    if "symbol" in kw and (measured.Prefix._by_symbol.get(kw["symbol"]) is not p or p.symbol != kw["symbol"]):
                        bad.append("%s: symbol %r is not bound to / reported by Prefix(%r, %r)" % (fn, kw["symbol"], b, e))
    return bad
'''
exec(DECLARED)


def run(tier, seed):
    ns = namespace()
    import measured
    rng = seed_rng(seed, "C19")
    failures, samples, evals, distinct = [], [], 0, set()

    def fail(key, desc, code):
        if sum(1 for f in failures if f["key"] == key) < 2:
            failures.append({"key": key, "desc": desc, "code": code})

    for msg in faithful()[:5]:
        fail("shipped:unfaithful", msg, "bad = faithful()\nprint(bad[:5])\nsys.exit(1 if bad else 0)\n")
    for msg in declared_prefixes_bound()[:5]:
        fail("shipped:prefix-declaration", msg, "bad = declared_prefixes_bound()\nprint(bad[:5])\nsys.exit(1 if bad else 0)\n")
    evals += 2
    n = 40 if tier == "quick" else 2000
    tag = "c19s%d" % seed
    for i in range(n):
        k = rng.choice(["prefix-symbol-then-conflict", "prefix-name-then-conflict", "anon-then-named-prefix", "define-dup-name", "define-dup-symbol", "define-space", "alias-conflict-symbol",
                        "alias-space", "alias-dup-name", "derive-dup", "prefix-dup-symbol", "named-ok", "derive-ok", "lookup-then-define", "lookup-name-then-symbol", "rederive-new-symbol", "rederive-taken-symbol", "scale-other-dimension", "scale-dup-symbol", "lookalike-symbol", "lookalike-name", "prefix-short-symbol"])
        u = "%s_%d" % (tag, i)
        code = {
            "anon-then-named-prefix": "import measured\nb = {b}\nanon = measured.Prefix(b, {e})\np = measured.Prefix(b, {e}, name='{u}n', symbol='{u}s')\nok = p is anon and measured.Prefix._by_name.get('{u}n') is p and measured.Prefix._by_symbol.get('{u}s') is p and p.name == '{u}n' and p.symbol == '{u}s'\n",
            "prefix-symbol-then-conflict": "import measured\np = measured.Prefix({b}, {e}, symbol='{u}s1')\nbefore = snapshot()\ntry:\n    measured.Prefix({b}, {e}, name='{u}n', symbol='{u}s2')\n    raised = False\nexcept ValueError:\n    raised = True\nok = raised and snapshot()[5:8] == before[5:8]\n",
            "prefix-name-then-conflict": "import measured\np = measured.Prefix({b}, {e}, name='{u}n1')\nbefore = snapshot()\ntry:\n    measured.Prefix({b}, {e}, name='{u}n2', symbol='{u}s')\n    raised = False\nexcept ValueError:\n    raised = True\nok = raised and snapshot()[5:8] == before[5:8]\n",
            "define-dup-name": "import measured\nbefore = snapshot()\ntry:\n    measured.Unit.define(measured.Length, 'meter', '{u}')\n    raised = False\nexcept ValueError:\n    raised = True\nok = raised and snapshot() == before\n",
            "define-dup-symbol": "import measured\nbefore = snapshot()\ntry:\n    measured.Unit.define(measured.Length, '{u}', 'm')\n    raised = False\nexcept ValueError:\n    raised = True\nok = raised and snapshot() == before\n",
            "define-space": "import measured\nbefore = snapshot()\ntry:\n    measured.Unit.define(measured.Length, '{u}', '{u} x')\n    raised = False\nexcept ValueError:\n    raised = True\nok = raised and snapshot() == before\n",
            "alias-conflict-symbol": "import measured\nbefore = snapshot()\ntry:\n    ns['Meter'].alias(name='{u}', symbol='s')\n    raised = False\nexcept ValueError:\n    raised = True\nok = raised and snapshot() == before\n",
            "alias-space": "import measured\nbefore = snapshot()\ntry:\n    ns['Meter'].alias(name='{u}', symbol='a b')\n    raised = False\nexcept ValueError:\n    raised = True\nok = raised and snapshot() == before\n",
            "alias-dup-name": "import measured\nbefore = snapshot()\ntry:\n    ns['Meter'].alias(name='second', symbol='{u}')\n    raised = False\nexcept ValueError:\n    raised = True\nok = raised and snapshot() == before\n",
            "derive-dup": "import measured\nbefore = snapshot()\ntry:\n    measured.Dimension.derive(measured.Length**{e2}, 'area')\n    raised = False\nexcept ValueError:\n    raised = True\nok = raised and snapshot() == before\n",
            "prefix-dup-symbol": "import measured\nbefore = snapshot()\ntry:\n    measured.Prefix({b}, {e}, name='{u}n', symbol='k')\n    raised = False\nexcept ValueError:\n    raised = True\nok = raised and snapshot()[5:8] == before[5:8]\n",
            # a name/symbol is bound to the object declared with it even if the same text was looked up (and resolved another way) before
            "lookup-then-define": "import measured\nbase = measured.Unit.define(measured.Length, '{u}base', '{u}q')\nearly = measured.Unit.resolve_symbol('m{u}q')\nnew = measured.Unit.define(measured.Length, '{u}new', 'm{u}q')\nok = measured.Unit.resolve_symbol('m{u}q') is new and measured.Unit._by_symbol['m{u}q'] is new and early is not new and not faithful()\n",
            "lookup-name-then-symbol": "import measured\nfirst = measured.Unit.define(measured.Length, '{u}w', '{u}ws')\nearly = measured.Unit.resolve_symbol('{u}w')\nother = measured.Unit.define(measured.Length, '{u}o', '{u}os')\nother.alias(symbol='{u}w')\nok = early is first and measured.Unit.resolve_symbol('{u}w') is other and not faithful()\n",
            # declaring again under a name the unit already has: the new symbol is bound (or the call fails and changes nothing)
            "rederive-new-symbol": "import measured\nanon = ns['Meter']**{e2} / ns['Second']**{e3}\nmeasured.Unit.derive(anon, '{u}', '{u}s1')\nmeasured.Unit.derive(anon, '{u}', '{u}s2')\nok = measured.Unit._by_symbol.get('{u}s2') is anon and '{u}s2' in anon.symbols and measured.Unit.resolve_symbol('{u}s2') is anon and not faithful()\n",
            "rederive-taken-symbol": "import measured\nanon = ns['Meter']**{e2} / ns['Second']**{e3}\nmeasured.Unit.derive(anon, '{u}', '{u}s1')\nbefore = snapshot()\ntry:\n    measured.Unit.derive(anon, '{u}', 's')\n    raised = False\nexcept ValueError:\n    raised = True\nok = raised and snapshot() == before and measured.Unit.resolve_symbol('s') is ns['Second']\n",
            # Dimension.scale defines a unit and then its zero point: whatever makes the call fail, nothing may stay registered
            "scale-other-dimension": "import measured\nbefore = snapshot()\ntry:\n    measured.Temperature.scale({e2} * ns['Meter'], '{u}', '{u}')\n    raised = False\nexcept Exception:\n    raised = True\nok = (not raised and measured.Unit._by_name['{u}'].name == '{u}') or (raised and snapshot() == before)\n",
            "scale-dup-symbol": "import measured\nbefore = snapshot()\ntry:\n    measured.Temperature.scale({e2} * ns['Kelvin'], '{u}', 'K')\n    raised = False\nexcept ValueError:\n    raised = True\nok = raised and snapshot() == before\n",
            # a text that differs from a taken name/symbol only by Unicode normalisation (OHM SIGN vs GREEK OMEGA, A + combining ring) is either
            # refused or registered as its own key: the existing binding is never taken over
            "lookalike-symbol": "import measured, unicodedata\nbefore = dict(measured.Unit._by_symbol)\ntry:\n    measured.Unit.define(measured.Length, '{u}', '{ls}')\nexcept ValueError:\n    pass\nok = all(measured.Unit._by_symbol.get(k) is v for k, v in before.items()) and not faithful()\n",
            "lookalike-name": "import measured\nbefore = dict(measured.Unit._by_name)\ntry:\n    measured.Unit.define(measured.Length, 'A\\u030angstro\\u0308m', '{u}')\nexcept ValueError:\n    pass\nok = all(measured.Unit._by_name.get(k) is v for k, v in before.items()) and not faithful()\n",
            # a new prefix may take any free symbol, however short or similar to a shipped one; lookups by that symbol return it
            "prefix-short-symbol": "import measured\nfree = [s for s in ['u', '\\u00b5', 'mc', 'K', 'D', 'H', 'mu', 'U', 'x', 'dk', 'hh', 'Mi2', '\\u03bc\\u03bc', 'ki', 'da2'] if s not in measured.Prefix._by_symbol]\nok = True\nif free:\n    s = free[0]\n    p = measured.Prefix({b}, {e}, symbol=s)\n    ok = measured.Prefix._by_symbol.get(s) is p and p.symbol == s and measured.Prefix.resolve_symbol(s) is p and not faithful()\n",
            "named-ok": "import measured\nanon = ns['Meter']**{e2} / ns['Second']**{e3}\nmeasured.Unit.derive(anon, '{u}', '{u}')\nok = measured.Unit._by_name['{u}'] is anon and measured.Unit._by_symbol['{u}'] is anon and '{u}' in anon.names and not faithful()\n",
            "derive-ok": "import measured\nd = measured.Length**{e2} / measured.Time**{e3}\nwas = d.name\ntry:\n    measured.Dimension.derive(d, '{u}')\n    ok = measured.Dimension._by_name['{u}'] is d and d.name == '{u}'\nexcept ValueError:\n    ok = was is not None and was != '{u}'\nok = ok and not faithful()\n",
        }[k].format(u=u, ls=rng.choice(["\\u2126", "A\\u030a", "\\u212b", "\\u00b5m"]), b=rng.choice([3, 5, 7, 11]), e=rng.choice([-9, -7, 5, 8, 13]) + i * 100, e2=17 + i, e3=23 + i)
        env = dict(ns)
        exec(SNAP, env)
        env["ns"] = ns
        try:
            exec(code, env)
            ok = env["ok"]
        except Exception as e:
            ok = False
            code += "# raised %s: %s\n" % (type(e).__name__, e)
        evals += 1
        distinct.add(k)
        if not ok:
            fail(k, "scenario %s violated (see replay)" % k, code + "print('ok =', ok)\nsys.exit(0 if ok else 1)\n")
        if len(samples) < 4:
            samples.append(code.splitlines()[1:4])
    return {"evaluations": evals, "distinct": len(distinct) + 2, "failures": failures[:8], "samples": samples,
            "rule": "registry faithfulness of all shipped declarations (names/symbols <-> objects, every named Prefix(...) declaration in the source), "
                    "plus random scenarios of 22 kinds (anonymous-then-named, failing define/alias/derive/prefix calls in each argument position with "
                    "registry snapshots before and after); distinct = scenario kinds", "bound": "%d scenarios" % n}


def replay_body(f):
    return SNAP + DECLARED + f["code"]
