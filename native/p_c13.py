"""C13 (ground over the registry, bounded for compounds): str() output parses back to the same
unit / an equal quantity; alternative spellings agree; no str() output parses to a different value."""
from .common import namespace, pools, seed_rng

CHECK = '''
def c13_unit(src, ns):
    """str(u) parses back to a unit of identical scale and dimension (the same object, except for the
    library's deliberate mapping of a prefixed symbol to an equal named unit)"""
    import measured
    u = eval(src, ns)
    text = str(u)
    try:
        p = measured.Unit.parse(text)
    except Exception as e:
        return "unparsable: str(%s) = %r does not parse as a unit (%s)" % (src, text, type(e).__name__)
    if p is u:
        return None
    same = False
    try:
        if p.dimension is u.dimension:
            a, b = (1 * u).unprefixed(), (1 * p).unprefixed()
            if a.unit is b.unit:
                same = abs(float(a.magnitude) / float(b.magnitude) - 1) < 1e-9
            else:
                same = abs(float((1 * u).in_unit(p).magnitude) - 1) < 1e-9
    except Exception:
        same = False
    if same:
        return None
    return "different: str(%s) = %r parses to %r, a different unit" % (src, text, p)
def c13_quantity(src, ns):
    import measured
    q = eval(src, ns)
    text = str(q)
    try:
        p = measured.Quantity.parse(text)
    except Exception as e:
        return "unparsable-quantity: str(%s) = %r does not parse (%s)" % (src, text, type(e).__name__)
    try:
        if p.unit is q.unit and isinstance(q.magnitude, int):
            ok = isinstance(p.magnitude, int) and p.magnitude == q.magnitude   # an integer is written out digit by digit: it comes back exactly
        else:
            ok = (p == q) or abs(float(p.in_unit(q.unit).magnitude) / float(q.magnitude) - 1) < 1e-9
    except Exception:
        ok = False
    return None if ok else "different-quantity: str(%s) = %r parses to %r" % (src, text, p)
def c13_spellings(texts, ns):
    import measured
    vals = []
    for t in texts:
        try: vals.append(measured.Unit.parse(t))
        except Exception as e: return "spelling: %r does not parse (%s) while %r does" % (t, type(e).__name__, texts[0])
    if any(v is not vals[0] for v in vals):
        return "spelling: %r parse to different units %r" % (texts, vals)
    return None
'''
exec(CHECK)


def classify(msg, src, ns):
    """recorded classes of the str()/parse() defect get their own keys"""
    import measured
    u = eval(src, ns)
    if isinstance(u, measured.Quantity):
        u = u.unit
    p = u.prefix
    anonymous = p.base != 0 and not p.symbol
    first_exp = next(iter(u.factors.values()))
    try:
        p.root(first_exp)
        pushdown_fails = False
    except Exception:
        pushdown_fails = True
    text = str(u)
    if msg.startswith("unparsable") and (anonymous or pushdown_fails or text[:1].isdigit()):
        # a prefix without a registered symbol is rendered as base+superscript, or as a leading magnitude
        return "known:prefix-not-renderable"
    if msg.startswith("different"):
        token = text.split("⋅")[0].rstrip("⁻⁰¹²³⁴⁵⁶⁷⁸⁹")
        return "collision:" + token
    return msg.split(":")[0]


def run(tier, seed):
    ns = namespace()
    import measured
    units, prefixes, _ = pools(ns)
    rng = seed_rng(seed, "C13")
    failures, samples, evals, distinct = [], [], 0, set()

    def note(msg, src, fn):
        key = classify(msg, src, ns) if fn != "c13_spellings" else "spelling"
        if sum(1 for f in failures if f["key"] == key) < (1 if key.startswith("collision:") else 3):
            failures.append({"key": key, "desc": msg, "src": src, "fn": fn})

    # ground part: every prefix x unit (x exponent in the thorough tier)
    plist = prefixes  # every registered prefix, also in the quick tier: a new collision involves one particular prefix and unit
    for u in units:
        for p in [None] + plist:
            for e in ([1] if tier == "quick" else [1, 2, -1, 3]):
                src = u if p is None else "(%s*%s)" % (p, u)
                if e != 1:
                    src = "%s**%d" % (src, e)
                evals += 1
                distinct.add(src)
                for fn in (c13_unit,):
                    msg = fn(src, ns)
                    if msg:
                        note(msg, src, fn.__name__)
    # compounds and quantities
    n = 300 if tier == "quick" else 20000
    for _ in range(n):
        parts = []
        for _ in range(rng.choice([2, 3])):
            u = rng.choice(units)
            if rng.random() < 0.3:
                u = "(%s*%s)" % (rng.choice(prefixes), u)
            e = rng.choice([-3, -2, -1, 1, 1, 2, 3])
            parts.append(u if e == 1 else "%s**%d" % (u, e))
        src = "(" + " * ".join(parts) + ")"
        evals += 1
        distinct.add(src)
        msg = c13_unit(src, ns)
        if msg:
            note(msg, src, "c13_unit")
        qsrc = "(%s * %s)" % (rng.choice(["5", "2.5", "-3", "1e3", "0", "9007199254740993", "12345678901234567891", "-(10**17+1)", "3**40", "1e-7", "123456.789e3"]), src)
        msg = c13_quantity(qsrc, ns)
        if msg:
            note(msg, qsrc, "c13_quantity")
        if len(samples) < 4:
            samples.append("%s -> %r" % (src, str(eval(src, ns))))
    # a symbol first met as prefix+unit and registered as a unit of its own afterwards (import order / later definitions)
    tag = "zq" + "".join("abcdefghij"[int(ch)] for ch in str(seed % 100000))
    hist = ("import measured\nfrom measured.si import Kilo\nbase = measured.Unit._by_symbol.get('%(t)s') or measured.Unit.define(measured.Length, '%(t)s-name', '%(t)s')\n"
            "first = measured.Unit.parse('k%(t)s')\nown = measured.Unit._by_symbol.get('k%(t)s') if isinstance(measured.Unit._by_symbol.get('k%(t)s'), measured.Unit) and "
            "measured.Unit._by_symbol.get('k%(t)s').name == 'k%(t)s-name' else measured.Unit.define(measured.Mass, 'k%(t)s-name', 'k%(t)s')\n"
            "ok = first is Kilo * base and measured.Unit.parse(str(own)) is own and measured.Quantity.parse('3 k%(t)s').unit is own\n") % {"t": tag}
    env = dict(ns)
    evals += 1
    try:
        exec(hist, env)
        okh = env["ok"]
    except Exception as e:
        okh = False
        hist += "# raised %s: %s\n" % (type(e).__name__, e)
    if not okh:
        failures.append({"key": "history:symbol-registered-after-first-parse", "desc": "a symbol parsed as prefix+unit before a unit with that very symbol was defined keeps its old meaning",
                         "src": hist, "fn": "history"})
    # spellings
    for _ in range(60 if tier == "quick" else 3000):
        a, b = ns[rng.choice(units)], ns[rng.choice(units)]
        if not a.symbol or not b.symbol or " " in a.symbol + b.symbol:
            continue
        ea, eb = rng.choice([1, 2, 3]), rng.choice([1, 2])
        sup = {1: "", 2: "²", 3: "³"}
        texts = ["%s^%d*%s^-%d" % (a.symbol, ea, b.symbol, eb), "%s%s⋅%s⁻%s" % (a.symbol, sup[ea] or "¹", b.symbol, sup[eb] or "¹"),
                 "%s^%d/%s^%d" % (a.symbol, ea, b.symbol, eb), " %s^%d  %s^-%d " % (a.symbol, ea, b.symbol, eb), "%s^%d / %s%s" % (a.symbol, ea, b.symbol, sup[eb]),
                 # any whitespace: newline, tab, carriage return, form feed
                 "%s^%d\n%s^-%d\n" % (a.symbol, ea, b.symbol, eb), "\t%s^%d\r\n/\f%s^%d" % (a.symbol, ea, b.symbol, eb)]
        if rng.random() < 0.3:
            # a zeroth power is a factor of one, however it is spelt
            c = ns[rng.choice(units)]
            if c.symbol and " " not in c.symbol:
                z = rng.choice(["%s^0", "%s⁰", "%s^-0", "%s^+0"]) % c.symbol
                texts += ["%s^%d*%s*%s^-%d" % (a.symbol, ea, z, b.symbol, eb), "%s⋅%s^%d/%s^%d" % (z, a.symbol, ea, b.symbol, eb)]
        evals += 1
        msg = c13_spellings(texts, ns)
        if msg:
            note(msg, repr(texts), "c13_spellings")
    return {"evaluations": evals, "distinct": len(distinct), "failures": failures[:80], "samples": samples,
            "rule": "every registered unit alone and with %s registered prefixes (ground), random products of 2-3 prefixed powers and quantities over them, "
                    "7 alternative spellings (carat/superscript, * / ⋅ juxtaposition, blanks, tabs, newlines, form feeds) of random two-factor expressions; distinct = distinct unit expressions" % ("all"),
            "bound": "ground over %d units x %d prefixes; %d compounds" % (len(units), len(plist), n)}


def replay_body(f):
    if f["fn"] == "history":
        return f["src"] + "print('ok =', ok)\nsys.exit(0 if ok else 1)\n"
    arg = f["src"] if f["fn"] != "c13_spellings" else None
    if arg is None:
        return CHECK + "msg = c13_spellings(%s, ns)\nprint(msg)\nsys.exit(1 if msg else 0)\n" % f["src"]
    return CHECK + "msg = %s(%r, ns)\nprint(msg)\nsys.exit(1 if msg else 0)\n" % (f["fn"], arg)
